"""C20 - registration requests: construction shape only.

C20.hmac   getToken has the keyed-hash (HMAC) shape over a 64-byte block: inner = H(ipad || sig || classes || number),
           outer = H(opad || inner digest), result = base64(outer digest)
C20.env    encryptParams: key pair generated inside the call, agreement(server key, that pair's private key),
           payload = that pair's public key || ciphertext, plaintext = urlencodeParams(params)
C20.order  parameters kept in a list, joined in list order, every value through urlencode; escape table consistent
"""
import ast

from ..cfg import CFG
from ..consts import Evaluator, alts
from ..report import where
from ..repo import unparse, is_self_attr, params_of
from ..terms import PathEval, all_path_results, show, subterms

ENV = "yowsup/env/env_android.py"
REQ = "yowsup/common/http/warequest.py"


def strip_bytes(e):
    while isinstance(e, ast.Call) and isinstance(e.func, ast.Name) and e.func.id in ("bytes", "bytearray") and len(e.args) == 1:
        e = e.args[0]
    return e


def add_chain(e):
    """operands of a left-assoc `a + b + c` chain"""
    e = strip_bytes(e)
    if isinstance(e, ast.BinOp) and isinstance(e.op, ast.Add):
        return add_chain(e.left) + add_chain(e.right)
    return [e]


def rule_hmac(ctx):
    repo = ctx.repo
    cls = repo.cls(ENV, "AndroidYowsupEnv")
    fn = repo.method(ENV, "AndroidYowsupEnv", "getToken")
    w = where(ENV, "AndroidYowsupEnv.getToken", fn.lineno)
    ev = Evaluator(repo, cls.module, cls)
    phone = params_of(fn)[0]
    # ---- pads: for i in range(0, B): opad.append(0x5C ^ key[i]); ipad.append(0x36 ^ key[i])
    pads = {}
    block = None
    keyvar = None
    for n in ast.walk(fn):
        if isinstance(n, ast.For) and isinstance(n.iter, ast.Call) and unparse(n.iter.func) == "range":
            a = [alts(ev.ev(x)) for x in n.iter.args]
            if all(a) and isinstance(n.target, ast.Name):
                rng = range(*[x[0] for x in a])
                for c in ast.walk(n):
                    if isinstance(c, ast.Call) and isinstance(c.func, ast.Attribute) and c.func.attr == "append" and isinstance(c.func.value, ast.Name) \
                            and c.args and isinstance(c.args[0], ast.BinOp) and isinstance(c.args[0].op, ast.BitXor):
                        l, r = c.args[0].left, c.args[0].right
                        const, sub = (l, r) if isinstance(r, ast.Subscript) else (r, l)
                        cv = alts(ev.ev(const))
                        if cv and isinstance(sub, ast.Subscript) and unparse(sub.slice) == n.target.id and isinstance(sub.value, ast.Name):
                            pads[cv[0]] = c.func.value.id
                            keyvar = sub.value.id
                            block = (rng.start, rng.stop, rng.step)
    uses_hmac = [c for c in ast.walk(fn) if isinstance(c, ast.Call) and unparse(c.func) in ("hmac.new", "hmac.HMAC", "hmac.digest")]
    if uses_hmac and not pads:
        c = uses_hmac[0]
        ok = len(c.args) >= 2 and ("sha1" in unparse(c) or "SHA1" in unparse(c))
        ctx.check("C20.hmac", ok, w, c, "hmac construction must use SHA-1 over the key and the message", "library HMAC-SHA1")
        ctx.undecided("C20.hmac", w, fn, "library-HMAC form found; message/key provenance not modelled")
        return
    ctx.check("C20.hmac", pads.get(0x5C) is not None and pads.get(0x36) is not None and pads.get(0x5C) != pads.get(0x36) and block == (0, 64, 1), w,
              "pads %s over block %s" % ({hex(k): v for k, v in pads.items()}, block),
              "outer/inner pads must be key XOR 0x5C / 0x36 over the 64-byte SHA-1 block (found %s over %s)" % ({hex(k): v for k, v in pads.items()}, block),
              "opad = key^0x5C, ipad = key^0x36 over 64 bytes")
    if 0x5C not in pads or 0x36 not in pads:
        return
    opad, ipad = pads[0x5C], pads[0x36]
    # key provenance: bytearray(b64decode(<class const _KEY>)) of at least 64 bytes
    keydef = [n for n in ast.walk(fn) if isinstance(n, ast.Assign) and isinstance(n.targets[0], ast.Name) and n.targets[0].id == keyvar]
    okk = False
    if len(keydef) == 1:
        dec = [c for c in ast.walk(keydef[0].value) if isinstance(c, ast.Call) and unparse(c.func).endswith("b64decode")]
        if dec:
            kv = alts(ev.ev(dec[0].args[0]))
            if kv and isinstance(kv[0], str):
                import base64
                try:
                    okk = len(base64.b64decode(kv[0])) >= 64
                except Exception:
                    okk = False
    ctx.check("C20.hmac", okk, w, "key = " + (unparse(keydef[0].value) if keydef else "?"), "the key must be the base64-decoded class constant of at least 64 bytes", "key is the decoded class constant (>= 64 bytes)")
    # ---- message: sig + classes + number
    datadef = None
    updates = [c for c in ast.walk(fn) if isinstance(c, ast.Call) and isinstance(c.func, ast.Attribute) and c.func.attr == "update" and isinstance(c.func.value, ast.Name)]
    inner_updates = [c for c in updates if any(isinstance(x, ast.Name) and x.id == ipad for x in ast.walk(c.args[0]))]
    outer_updates = [c for c in updates if any(isinstance(x, ast.Name) and x.id == opad for x in ast.walk(c.args[0]))]
    if not inner_updates or not outer_updates:
        ctx.violate("C20.hmac", w, fn, "inner hash must absorb ipad||message and outer hash opad||inner digest; found %d/%d such updates" % (len(inner_updates), len(outer_updates)))
        return
    inner = {c.func.value.id for c in inner_updates}
    outer = {c.func.value.id for c in outer_updates}
    locals_ = {n.targets[0].id: n.value for n in ast.walk(fn) if isinstance(n, ast.Assign) and isinstance(n.targets[0], ast.Name)}
    for c in inner_updates:
        ops = add_chain(c.args[0])
        # expand the message variable
        flat = []
        for o in ops:
            if isinstance(o, ast.Name) and o.id in locals_ and o.id not in (ipad, opad):
                flat += add_chain(locals_[o.id])
            else:
                flat.append(o)
        # resolve remaining names to their definitions for provenance
        prov = []
        for o in flat:
            if isinstance(o, ast.Name) and o.id in locals_ and o.id not in (ipad, opad):
                prov.append(locals_[o.id])
            else:
                prov.append(o)
        ok = len(prov) == 4 and isinstance(prov[0], ast.Name) and prov[0].id == ipad
        sig = cl = num = False
        if ok:
            def decoded_const(e, name):
                return isinstance(e, ast.Call) and unparse(e.func).endswith("b64decode") and unparse(e.args[0]).endswith(name)
            sig = decoded_const(prov[1], "_SIGNATURE")
            cl = decoded_const(prov[2], "_MD5_CLASSES")
            num = isinstance(prov[3], ast.Call) and isinstance(prov[3].func, ast.Attribute) and prov[3].func.attr == "encode" and unparse(prov[3].func.value) == phone
        ctx.check("C20.hmac", ok and sig and cl and num, where(ENV, "AndroidYowsupEnv.getToken", c.lineno), c,
                  "inner hash must absorb ipad || signature || class digest || phone number, in that order; found %s" % [unparse(p)[:40] for p in prov],
                  "inner = H(ipad || signature || class digest || number)")
    for c in outer_updates:
        ops = add_chain(c.args[0])
        ok = len(ops) == 2 and isinstance(ops[0], ast.Name) and ops[0].id == opad and isinstance(ops[1], ast.Call) and isinstance(ops[1].func, ast.Attribute) \
            and ops[1].func.attr == "digest" and isinstance(ops[1].func.value, ast.Name) and ops[1].func.value.id in inner
        ctx.check("C20.hmac", ok, where(ENV, "AndroidYowsupEnv.getToken", c.lineno), c, "outer hash must absorb opad || inner digest", "outer = H(opad || inner.digest())")
    # both hashes are SHA-1 objects, distinct
    kinds = {v: unparse(locals_[v]) for v in inner | outer if v in locals_}
    ctx.check("C20.hmac", len(inner) == 1 and len(outer) == 1 and inner != outer and all(k == "hashlib.sha1()" for k in kinds.values()), w, "hash objects %s" % kinds,
              "inner and outer must be two separate SHA-1 objects", "two SHA-1 objects")
    # result = base64(outer digest)
    rets = [r for r in ast.walk(fn) if isinstance(r, ast.Return)]
    okr = False
    for r in rets:
        v = r.value
        if isinstance(v, ast.Name) and v.id in locals_:
            v = locals_[v.id]
        okr = isinstance(v, ast.Call) and unparse(v.func).endswith("b64encode") and isinstance(v.args[0], ast.Call) and isinstance(v.args[0].func, ast.Attribute) \
            and v.args[0].func.attr == "digest" and unparse(v.args[0].func.value) in outer
    ctx.check("C20.hmac", okr and len(rets) == 1, w, "return " + (unparse(rets[0].value) if rets else "?"), "the token must be base64 of the outer digest", "base64(outer digest)")


def rule_env(ctx):
    repo = ctx.repo
    cls = repo.cls(REQ, "WARequest")
    fn = repo.method(REQ, "WARequest", "encryptParams")
    w = where(REQ, "WARequest.encryptParams", fn.lineno)
    ev = Evaluator(repo, cls.module, cls)
    g = CFG(fn)
    pe = PathEval(fn, ev)
    res = [r for r in all_path_results(g, pe) if r["terminal"] == "exit"]
    if not res:
        ctx.undecided("C20.env", w, fn, "no normal path through encryptParams")
        return
    for r in res:
        _env_path(ctx, repo, fn, w, r)
    # the caller passes the request's parameter list and the server key constant
    sg = repo.method(REQ, "WARequest", "sendGetRequest")
    calls = [c for c in ast.walk(sg) if isinstance(c, ast.Call) and is_self_attr(c.func, "encryptParams")]
    ok = len(calls) == 1 and [unparse(a) for a in calls[0].args] == ["self.params", "self.ENC_PUBKEY"]
    ctx.check("C20.env", ok, where(REQ, "WARequest.sendGetRequest", sg.lineno), calls[0] if calls else sg, "sendGetRequest must encrypt self.params under self.ENC_PUBKEY", "encryptParams(self.params, self.ENC_PUBKEY)")

def _env_path(ctx, repo, fn, w, r):
    ps = params_of(fn)
    P, KEY = ("param", ps[0]), ("param", ps[1])
    gens = [e for e in r["events"] if e["func"] == "generateKeyPair"]
    if len(gens) != 1:
        ctx.violate("C20.env", w, fn, "exactly one ephemeral key pair must be generated inside the call (found %d): the pair would be reused across requests" % len(gens))
        return
    kp = gens[0]["result"]
    cached = [n for n in ast.walk(fn) if isinstance(n, (ast.Assign, ast.AugAssign)) and any(isinstance(t, ast.Attribute) for t in (n.targets if isinstance(n, ast.Assign) else [n.target]))]
    ctx.check("C20.env", not cached, w, "ephemeral pair " + show(kp), "the generated pair is stored on the object/class (%s): not fresh per request" % [unparse(c)[:50] for c in cached], "generated inside the call, not stored")
    ag = [e for e in r["events"] if e["func"] == "calculateAgreement"]
    ok = len(ag) == 1 and ag[0]["args"] == (KEY, ("attr", kp, "privateKey"))
    ctx.check("C20.env", ok, w, "agreement " + (show(ag[0]["result"]) if ag else "?"), "the AES key must be agreement(server key parameter, private key of the pair generated in this call)", "agreement(server key, ephemeral private key)")
    aes = [e for e in r["events"] if e["func"] == "AESGCM"]
    okc = len(aes) == 1 and ag and aes[0]["args"] == (ag[0]["result"],)
    ctx.check("C20.env", bool(okc), w, "cipher " + (show(aes[0]["result"])[:80] if aes else "?"), "AES-GCM must be keyed with the agreement", "AESGCM(agreement)")
    enc = [e for e in r["events"] if e["func"] == "encrypt" and aes and e["recv"] == aes[0]["result"]]
    okp = False
    if len(enc) == 1 and len(enc[0]["args"]) == 3:
        pt = enc[0]["args"][1]
        okp = pt[0] == "call" and pt[1] == "encode" and pt[2][0] == "call" and pt[2][1] == "urlencodeParams" and pt[2][3] == (P,)
    ctx.check("C20.env", okp, w, "plaintext " + (show(enc[0]["args"][1]) if enc and len(enc[0]["args"]) > 1 else "?"), "the plaintext must be urlencodeParams(params).encode() of the params argument", "plaintext = urlencodeParams(params)")
    ret = r["ret"]
    okr = False
    payload = None
    for t in subterms(ret):
        if t[0] == "call" and t[1] == "b64encode" and t[3]:
            payload = t[3][0]
    if payload is not None and payload[0] == "bin" and payload[1] == "Add" and enc:
        pub, ct = payload[2], payload[3]
        okpub = pub[0] == "slice" and pub[2] == ("const", 1) and pub[3] == ("const", None) and pub[1][0] == "call" and pub[1][1] == "serialize" and pub[1][2] == ("attr", kp, "publicKey")
        okr = okpub and ct == enc[0]["result"]
    ctx.check("C20.env", okr, w, "payload " + (show(payload)[:100] if payload else "?"), "payload must be base64(public key of the same generated pair (without type byte) || ciphertext)", "payload = ephemeral public key || ciphertext")

def rule_order(ctx):
    repo = ctx.repo
    cls = repo.cls(REQ, "WARequest")
    up = repo.method(REQ, "WARequest", "urlencodeParams")
    w = where(REQ, "WARequest.urlencodeParams", up.lineno)
    P = params_of(up)[0]
    loops = [n for n in ast.walk(up) if isinstance(n, ast.For)]
    ok = len(loops) == 1 and isinstance(loops[0].iter, ast.Name) and loops[0].iter.id == P
    ctx.check("C20.order", ok, w, loops[0] if loops else up, "parameters must be visited in list order (no sorting / reordering of %s)" % P, "iterates the list in order")
    if loops and isinstance(loops[0].target, ast.Tuple) and len(loops[0].target.elts) == 2:
        k, v = [e.id for e in loops[0].target.elts]
        app = [c for c in ast.walk(loops[0]) if isinstance(c, ast.Call) and isinstance(c.func, ast.Attribute) and c.func.attr == "append"]
        okv = False
        if len(app) == 1 and isinstance(app[0].args[0], ast.BinOp) and isinstance(app[0].args[0].op, ast.Mod):
            fmt, tup = app[0].args[0].left, app[0].args[0].right
            okv = isinstance(fmt, ast.Constant) and fmt.value == "%s=%s" and isinstance(tup, ast.Tuple) and unparse(tup.elts[0]) == k \
                and isinstance(tup.elts[1], ast.Call) and unparse(tup.elts[1].func).endswith(".urlencode") and unparse(tup.elts[1].args[0]) == v
        ctx.check("C20.order", okv, w, app[0] if app else loops[0], "each pair must be emitted as name=urlencode(value)", "name=urlencode(value)")
        merged = app[0].func.value.id if app and isinstance(app[0].func.value, ast.Name) else None
        rets = [r for r in ast.walk(up) if isinstance(r, ast.Return)]
        okj = len(rets) == 1 and isinstance(rets[0].value, ast.Call) and isinstance(rets[0].value.func, ast.Attribute) and rets[0].value.func.attr == "join" \
            and isinstance(rets[0].value.func.value, ast.Constant) and rets[0].value.func.value.value == "&" and unparse(rets[0].value.args[0]) == merged
        ctx.check("C20.order", okj, w, rets[0] if rets else up, "pairs must be joined with & in the order they were appended", "'&'.join in append order")
    # addParam appends to a list
    ap = repo.method(REQ, "WARequest", "addParam")
    ok = any(isinstance(c, ast.Call) and unparse(c.func) == "self.params.append" and isinstance(c.args[0], ast.Tuple) and [unparse(e) for e in c.args[0].elts] == params_of(ap) for c in ast.walk(ap))
    init = repo.method(REQ, "WARequest", "__init__")
    lst = any(isinstance(n, ast.Assign) and unparse(n.targets[0]) == "self.params" and isinstance(n.value, ast.List) for n in ast.walk(init))
    ctx.check("C20.order", ok and lst, where(REQ, "WARequest.addParam", ap.lineno), "self.params.append((name, value))", "parameters must be kept in a list in insertion order", "list, appended in order")
    # urlencode: every character through quote(safe=''), escapes lower-cased, extra escapes consistent
    ue = repo.method(REQ, "WARequest", "urlencode")
    wu = where(REQ, "WARequest.urlencode", ue.lineno)
    q = [c for c in ast.walk(ue) if isinstance(c, ast.Call) and unparse(c.func) == "urllib_quote"]
    okq = len(q) == 1 and any(k.arg == "safe" and isinstance(k.value, ast.Constant) and k.value.value == "" for k in q[0].keywords)
    perchar = any(isinstance(n, ast.For) and unparse(n.iter) == params_of(ue)[0] and any(c is q[0] for c in ast.walk(n)) for n in ast.walk(ue)) if q else False
    ctx.check("C20.order", okq and perchar, wu, q[0] if q else ue, "every character of the value must be quoted with no safe characters", "per-character quote(safe='')")
    # elements of a bytes value are ints: each must reach quote() as that one byte (bytes / bytearray of the single
    # element), never as a code point (chr(b) is quoted as its UTF-8 encoding: two escapes for b >= 0x80)
    from ..types import expr_types
    if q and perchar:
        loop = [n for n in ast.walk(ue) if isinstance(n, ast.For) and any(c is q[0] for c in ast.walk(n))][0]
        cv = loop.target.id if isinstance(loop.target, ast.Name) else None
        int_branches = [n for n in ast.walk(loop) if isinstance(n, ast.If) and "int" in unparse(n.test) and cv and cv in unparse(n.test)]
        okb = None
        what = "no branch converts the int elements of a bytes value"
        if len(int_branches) == 1 and unparse(q[0].args[0]) == cv:
            rebinds = [st_ for st_ in int_branches[0].body if isinstance(st_, ast.Assign) and isinstance(st_.targets[0], ast.Name) and st_.targets[0].id == cv]
            if len(rebinds) == 1:
                ts = expr_types(repo, cls, ue, rebinds[0].value)
                v = rebinds[0].value
                single = isinstance(v, ast.Call) and len(v.args) == 1 and isinstance(v.args[0], (ast.List, ast.Tuple)) and len(v.args[0].elts) == 1 and unparse(v.args[0].elts[0]) == cv
                okb = bool(ts) and ts <= {"bytes", "bytearray"} and single
                what = "the int element is turned into %s (%s)" % (unparse(v), "/".join(sorted(ts)))
        ctx.check("C20.order", okb, wu, int_branches[0] if int_branches else loop, "a byte of a bytes value must be quoted as that single byte (bytes([b]) / bytearray([b])): %s, so bytes >= 0x80 are percent-encoded as the UTF-8 form of a code point (two escapes) and the server decodes another value" % what,
                  "each byte quoted as itself")
    rep = [c for c in ast.walk(ue) if isinstance(c, ast.Call) and isinstance(c.func, ast.Attribute) and c.func.attr == "replace" and len(c.args) == 2
           and all(isinstance(a, ast.Constant) and isinstance(a.value, str) for a in c.args)]
    for c in rep:
        a, b = c.args[0].value, c.args[1].value
        ctx.check("C20.order", len(a) == 1 and b.lower() == "%%%02x" % ord(a), wu, "replace(%r, %r)" % (a, b), "extra escape for %r must be %s (standard decoding would return a different character)" % (a, "%%%02x" % ord(a[0])), "escape decodes back to %r" % a)
    conv = any(isinstance(n, ast.If) and "str" in unparse(n.test) and "bytes" in unparse(n.test) and any(isinstance(s, ast.Assign) and unparse(s.value).startswith("str(") for s in n.body) for n in ast.walk(ue))
    ctx.check("C20.order", conv, wu, "non-text values", "values that are neither str nor bytes must be converted with str()", "numbers converted with str()")
    # the token parameter is the env token of the national number
    for rel, cn in (("yowsup/registration/coderequest.py", "WACodeRequest"), ("yowsup/registration/existsrequest.py", "WAExistsRequest")):
        c = repo.cls(rel, cn, required=False)
        if c is None:
            continue
        init = c.methods.get("__init__")
        tok = [x for x in ast.walk(init) if isinstance(x, ast.Call) and is_self_attr(x.func, "addParam") and x.args and isinstance(x.args[0], ast.Constant) and x.args[0].value == "token"]
        ok = len(tok) == 1 and isinstance(tok[0].args[1], ast.Call) and unparse(tok[0].args[1].func).endswith("getToken") and unparse(tok[0].args[1].args[0]) == "self._p_in"
        ctx.check("C20.order", ok, where(rel, cn + ".__init__", init.lineno), tok[0] if tok else init, "the token parameter must be getToken(national number)", "token = getToken(self._p_in)")


def run(ctx):
    ctx.rule("C20.hmac", "keyed-hash construction shape of getToken", floor=6)
    ctx.rule("C20.env", "envelope provenance in encryptParams", floor=6)
    ctx.rule("C20.order", "parameter order and percent-encoding table", floor=10)
    ctx.assume("SHA-1, base64, X25519 agreement and AES-GCM primitives are trusted; equality with independent computations is not decided")
    ctx.guarded("C20.hmac", rule_hmac, ctx)
    ctx.guarded("C20.env", rule_env, ctx)
    ctx.guarded("C20.order", rule_order, ctx)
