"""C20 - registration requests: construction shape only.

C20.hmac   getToken has the keyed-hash (HMAC) shape over a 64-byte block: inner = H(ipad || sig || classes || number),
           outer = H(opad || inner digest), result = base64(outer digest)
C20.env    encryptParams: key pair generated inside the call, agreement(server key, that pair's private key),
           payload = that pair's public key || ciphertext, plaintext = urlencodeParams(params)
C20.order  parameters kept in a list, joined in list order, every value through urlencode; escape table consistent
"""
import ast

from ..cfg import CFG
from ..consts import Evaluator, alts
from ..report import where
from ..repo import unparse, is_self_attr, params_of
from ..terms import PathEval, all_path_results, show, subterms

ENV = "yowsup/env/env_android.py"
REQ = "yowsup/common/http/warequest.py"


def strip_bytes(e):
    while isinstance(e, ast.Call) and isinstance(e.func, ast.Name) and e.func.id in ("bytes", "bytearray") and len(e.args) == 1:
        e = e.args[0]
    return e


def add_chain(e):
    """operands of a left-assoc `a + b + c` chain"""
    e = strip_bytes(e)
    if isinstance(e, ast.BinOp) and isinstance(e.op, ast.Add):
        return add_chain(e.left) + add_chain(e.right)
    return [e]


def rule_hmac(ctx):
    repo = ctx.repo
    cls = repo.cls(ENV, "AndroidYowsupEnv")
    fn = repo.method(ENV, "AndroidYowsupEnv", "getToken")
    w = where(ENV, "AndroidYowsupEnv.getToken", fn.lineno)
    ev = Evaluator(repo, cls.module, cls)
    phone = params_of(fn)[0]
    # ---- pads: for i in range(0, B): opad.append(0x5C ^ key[i]); ipad.append(0x36 ^ key[i])
    pads = {}
    block = None
    keyvar = None
    for n in ast.walk(fn):
        if isinstance(n, ast.For) and isinstance(n.iter, ast.Call) and unparse(n.iter.func) == "range":
            a = [alts(ev.ev(x)) for x in n.iter.args]
            if all(a) and isinstance(n.target, ast.Name):
                rng = range(*[x[0] for x in a])
                for c in ast.walk(n):
                    if isinstance(c, ast.Call) and isinstance(c.func, ast.Attribute) and c.func.attr == "append" and isinstance(c.func.value, ast.Name) \
                            and c.args and isinstance(c.args[0], ast.BinOp) and isinstance(c.args[0].op, ast.BitXor):
                        l, r = c.args[0].left, c.args[0].right
                        const, sub = (l, r) if isinstance(r, ast.Subscript) else (r, l)
                        cv = alts(ev.ev(const))
                        if cv and isinstance(sub, ast.Subscript) and unparse(sub.slice) == n.target.id and isinstance(sub.value, ast.Name):
                            pads[cv[0]] = c.func.value.id
                            keyvar = sub.value.id
                            block = (rng.start, rng.stop, rng.step)
    uses_hmac = [c for c in ast.walk(fn) if isinstance(c, ast.Call) and unparse(c.func) in ("hmac.new", "hmac.HMAC", "hmac.digest")]
    if uses_hmac and not pads:
        c = uses_hmac[0]
        ok = len(c.args) >= 2 and ("sha1" in unparse(c) or "SHA1" in unparse(c))
        ctx.check("C20.hmac", ok, w, c, "hmac construction must use SHA-1 over the key and the message", "library HMAC-SHA1")
        # library form: hmac.new(key, message, sha1) - the hand-built construction keys the hash with the FIRST 64 bytes of
        # the decoded constant (one SHA-1 block); the library would hash a longer key first, so the key must be cut to 64
        locals_ = {}
        for n in ast.walk(fn):
            if isinstance(n, ast.Assign) and isinstance(n.targets[0], ast.Name):
                locals_.setdefault(n.targets[0].id, []).append(n.value)

        def resolve(e, depth=0):
            while isinstance(e, ast.Name) and len(locals_.get(e.id, [])) == 1 and depth < 6:
                e = locals_[e.id][0]
                depth += 1
            while isinstance(e, ast.Call) and isinstance(e.func, ast.Name) and e.func.id in ("bytes", "bytearray") and len(e.args) == 1:
                e = resolve(e.args[0], depth + 1)
            return e
        kw = {k.arg: k.value for k in c.keywords}
        key_e = resolve(c.args[0] if c.args else kw.get("key"))
        msg_e = c.args[1] if len(c.args) > 1 else kw.get("msg")
        dig_e = c.args[2] if len(c.args) > 2 else kw.get("digestmod")
        import base64 as _b64
        okk = False
        what = unparse(key_e)[:60] if key_e is not None else "?"
        cut = None
        base = key_e
        if isinstance(key_e, ast.Subscript) and isinstance(key_e.slice, ast.Slice) and key_e.slice.step is None:
            lo = alts(ev.ev(key_e.slice.lower)) if key_e.slice.lower is not None else [0]
            hi = alts(ev.ev(key_e.slice.upper)) if key_e.slice.upper is not None else None
            if lo == [0] and hi and len(hi) == 1:
                cut = hi[0]
            base = resolve(key_e.value)
        if isinstance(base, ast.Call) and unparse(base.func).endswith("b64decode") and base.args:
            kv = alts(ev.ev(base.args[0]))
            if kv and isinstance(kv[0], str):
                try:
                    n_ = len(_b64.b64decode(kv[0]))
                    okk = unparse(base.args[0]).endswith("_KEY") and ((cut == 64 and n_ >= 64) or (cut is None and n_ == 64))
                except Exception:
                    okk = False
        ctx.check("C20.hmac", okk, w, "key = " + what, "the key must be the first 64 bytes (one SHA-1 block) of the base64-decoded class constant; a longer key is hashed by the library first and gives another token", "key = decoded class constant cut to the 64-byte block")
        flat = []
        for o in add_chain(resolve(msg_e)) if msg_e is not None else []:
            o2 = resolve(o)
            flat += add_chain(o2) if isinstance(o2, ast.BinOp) else [o2]
        flat = [resolve(x) for x in flat]

        def decoded_const(e, name):
            return isinstance(e, ast.Call) and unparse(e.func).endswith("b64decode") and e.args and unparse(e.args[0]).endswith(name)
        okm = len(flat) == 3 and decoded_const(flat[0], "_SIGNATURE") and decoded_const(flat[1], "_MD5_CLASSES") \
            and isinstance(flat[2], ast.Call) and isinstance(flat[2].func, ast.Attribute) and flat[2].func.attr == "encode" and unparse(flat[2].func.value) == phone
        ctx.check("C20.hmac", okm, w, "message = " + " + ".join(unparse(x)[:30] for x in flat), "the MAC must cover signature || class digest || phone number, in that order", "message = signature || class digest || number")
        okd = dig_e is not None and unparse(dig_e) in ("hashlib.sha1", "'sha1'", "sha1")
        ctx.check("C20.hmac", okd, w, "digest = " + (unparse(dig_e) if dig_e is not None else "?"), "the keyed hash must be SHA-1", "SHA-1")
        rets = [r for r in ast.walk(fn) if isinstance(r, ast.Return) and r.value is not None]
        macvars = [t.id for n in ast.walk(fn) if isinstance(n, ast.Assign) and n.value is c for t in n.targets if isinstance(t, ast.Name)]
        okr = len(rets) == 1
        if okr:
            rv = resolve(rets[0].value)
            okr = isinstance(rv, ast.Call) and unparse(rv.func).endswith("b64encode") and len(rv.args) == 1 and isinstance(resolve(rv.args[0]), ast.Call) \
                and isinstance(resolve(rv.args[0]).func, ast.Attribute) and resolve(rv.args[0]).func.attr == "digest" \
                and (resolve(rv.args[0]).func.value is c or (isinstance(resolve(rv.args[0]).func.value, ast.Name) and resolve(rv.args[0]).func.value.id in macvars))
        ctx.check("C20.hmac", okr, w, "token = base64(mac.digest())", "the token must be the base64 text of the full MAC", "base64 of the digest")
        return
    ctx.check("C20.hmac", pads.get(0x5C) is not None and pads.get(0x36) is not None and pads.get(0x5C) != pads.get(0x36) and block == (0, 64, 1), w,
              "pads %s over block %s" % ({hex(k): v for k, v in pads.items()}, block),
              "outer/inner pads must be key XOR 0x5C / 0x36 over the 64-byte SHA-1 block (found %s over %s)" % ({hex(k): v for k, v in pads.items()}, block),
              "opad = key^0x5C, ipad = key^0x36 over 64 bytes")
    if 0x5C not in pads or 0x36 not in pads:
        return
    opad, ipad = pads[0x5C], pads[0x36]
    # key provenance: bytearray(b64decode(<class const _KEY>)) of at least 64 bytes
    keydef = [n for n in ast.walk(fn) if isinstance(n, ast.Assign) and isinstance(n.targets[0], ast.Name) and n.targets[0].id == keyvar]
    okk = False
    if len(keydef) == 1:
        dec = [c for c in ast.walk(keydef[0].value) if isinstance(c, ast.Call) and unparse(c.func).endswith("b64decode")]
        if dec:
            kv = alts(ev.ev(dec[0].args[0]))
            if kv and isinstance(kv[0], str):
                import base64
                try:
                    okk = len(base64.b64decode(kv[0])) >= 64
                except Exception:
                    okk = False
    ctx.check("C20.hmac", okk, w, "key = " + (unparse(keydef[0].value) if keydef else "?"), "the key must be the base64-decoded class constant of at least 64 bytes", "key is the decoded class constant (>= 64 bytes)")
    # ---- message: sig + classes + number
    datadef = None
    updates = [c for c in ast.walk(fn) if isinstance(c, ast.Call) and isinstance(c.func, ast.Attribute) and c.func.attr == "update" and isinstance(c.func.value, ast.Name)]
    inner_updates = [c for c in updates if any(isinstance(x, ast.Name) and x.id == ipad for x in ast.walk(c.args[0]))]
    outer_updates = [c for c in updates if any(isinstance(x, ast.Name) and x.id == opad for x in ast.walk(c.args[0]))]
    if not inner_updates or not outer_updates:
        ctx.violate("C20.hmac", w, fn, "inner hash must absorb ipad||message and outer hash opad||inner digest; found %d/%d such updates" % (len(inner_updates), len(outer_updates)))
        return
    inner = {c.func.value.id for c in inner_updates}
    outer = {c.func.value.id for c in outer_updates}
    locals_ = {n.targets[0].id: n.value for n in ast.walk(fn) if isinstance(n, ast.Assign) and isinstance(n.targets[0], ast.Name)}
    for c in inner_updates:
        ops = add_chain(c.args[0])
        # expand the message variable
        flat = []
        for o in ops:
            if isinstance(o, ast.Name) and o.id in locals_ and o.id not in (ipad, opad):
                flat += add_chain(locals_[o.id])
            else:
                flat.append(o)
        # resolve remaining names to their definitions for provenance
        prov = []
        for o in flat:
            if isinstance(o, ast.Name) and o.id in locals_ and o.id not in (ipad, opad):
                prov.append(locals_[o.id])
            else:
                prov.append(o)
        ok = len(prov) == 4 and isinstance(prov[0], ast.Name) and prov[0].id == ipad
        sig = cl = num = False
        if ok:
            def decoded_const(e, name):
                return isinstance(e, ast.Call) and unparse(e.func).endswith("b64decode") and unparse(e.args[0]).endswith(name)
            sig = decoded_const(prov[1], "_SIGNATURE")
            cl = decoded_const(prov[2], "_MD5_CLASSES")
            num = isinstance(prov[3], ast.Call) and isinstance(prov[3].func, ast.Attribute) and prov[3].func.attr == "encode" and unparse(prov[3].func.value) == phone
        ctx.check("C20.hmac", ok and sig and cl and num, where(ENV, "AndroidYowsupEnv.getToken", c.lineno), c,
                  "inner hash must absorb ipad || signature || class digest || phone number, in that order; found %s" % [unparse(p)[:40] for p in prov],
                  "inner = H(ipad || signature || class digest || number)")
    for c in outer_updates:
        ops = add_chain(c.args[0])
        ok = len(ops) == 2 and isinstance(ops[0], ast.Name) and ops[0].id == opad and isinstance(ops[1], ast.Call) and isinstance(ops[1].func, ast.Attribute) \
            and ops[1].func.attr == "digest" and isinstance(ops[1].func.value, ast.Name) and ops[1].func.value.id in inner
        ctx.check("C20.hmac", ok, where(ENV, "AndroidYowsupEnv.getToken", c.lineno), c, "outer hash must absorb opad || inner digest", "outer = H(opad || inner.digest())")
    # both hashes are SHA-1 objects, distinct
    kinds = {v: unparse(locals_[v]) for v in inner | outer if v in locals_}
    ctx.check("C20.hmac", len(inner) == 1 and len(outer) == 1 and inner != outer and all(k == "hashlib.sha1()" for k in kinds.values()), w, "hash objects %s" % kinds,
              "inner and outer must be two separate SHA-1 objects", "two SHA-1 objects")
    # result = base64(outer digest)
    rets = [r for r in ast.walk(fn) if isinstance(r, ast.Return)]
    okr = False
    for r in rets:
        v = r.value
        if isinstance(v, ast.Name) and v.id in locals_:
            v = locals_[v.id]
        okr = isinstance(v, ast.Call) and unparse(v.func).endswith("b64encode") and isinstance(v.args[0], ast.Call) and isinstance(v.args[0].func, ast.Attribute) \
            and v.args[0].func.attr == "digest" and unparse(v.args[0].func.value) in outer
    ctx.check("C20.hmac", okr and len(rets) == 1, w, "return " + (unparse(rets[0].value) if rets else "?"), "the token must be base64 of the outer digest", "base64(outer digest)")


def rule_hmac_exec(ctx):
    """getToken(phone), abstractly executed on the byte-string algebra (sa/bytealg): whatever way the keyed hash is written
    - pads built by hand and two SHA-1 objects, or hmac.new - the token must be
        base64( SHA1( (K ^ 0x5c..) || SHA1( (K ^ 0x36..) || signature || class digest || phone ) ) ),   K = first 64 bytes of the key
    with K, signature and class digest the class's own constants.  -> True when decided clean"""
    import base64 as _b64
    from ..absint import Interp, _Raise, NeedAtom, Budget, DomainGrew, enumerate_cells, show
    from ..bytealg import BytesAlg
    repo = ctx.repo
    cls = repo.cls(ENV, "AndroidYowsupEnv")
    fn = repo.method(ENV, "AndroidYowsupEnv", "getToken")
    w = where(ENV, "AndroidYowsupEnv.getToken", fn.lineno)
    ev = Evaluator(repo, cls.module, cls, class_scope=cls)
    consts = {}
    for name in ("_KEY", "_SIGNATURE", "_MD5_CLASSES"):
        k, e = repo.class_const(cls, name)
        a = alts(ev.ev(e)) if e is not None else None
        if not a or len(a) != 1 or not isinstance(a[0], (str, bytes)):
            ctx.undecided("C20.hmac", w, name, "class constant %s is not a constant string" % name)
            return None
        try:
            consts[name] = _b64.b64decode(a[0])
        except Exception as x:
            ctx.violate("C20.hmac", w, name, "class constant %s is not valid base64 (%s)" % (name, x))
            return False

    def run(cell, domains):
        alg = BytesAlg()
        it = Interp(repo, cell, domains, hooks=alg.hooks())
        it.max_steps = 200000
        o = it.construct(cls, [], {}, {"@module": cls.module, "@owner": None}, 0, None)
        kb = consts["_KEY"][:64]
        kb = kb + b"\x00" * (64 - len(kb))
        out = {"raised": None, "same": True, "got": "", "notes": alg.notes}
        # a history: three tokens in a row - two numbers on one object, then the first again on a second object of the class
        o2 = it.construct(cls, [], {}, {"@module": cls.module, "@owner": None}, 0, None)
        for i, (obj, pname, plen) in enumerate(((o, "PHONE1", 11), (o, "PHONE2", 12), (o2, "PHONE1", 11))):
            phone = alg.content(it, (pname,), plen)
            try:
                r = it.call_function(fn, cls, obj, [phone], {}, depth=0)
            except _Raise as x:
                out["raised"] = "%s (call %d)" % (x.text, i + 1)
                return out, it
            msg = alg.normalise([("const", consts["_SIGNATURE"] + consts["_MD5_CLASSES"]), ("sym", (pname,), 0, plen)])
            inner = ("HASH", "sha1", tuple(alg.normalise([("const", bytes(b ^ 0x36 for b in kb))] + msg)))
            outer = ("HASH", "sha1", tuple(alg.normalise([("const", bytes(b ^ 0x5C for b in kb)), ("sym", inner, 0, 20)])))
            want = [("sym", ("B64", (("sym", outer, 0, 20),)), 0, 28)]
            got = alg.atoms_of(r)
            if got is None or alg.normalise(got) != want:
                out["same"] = False
                out["got"] = "%s on call %d (%s)" % (describe_token(alg, got) if got is not None else show(r)[:60], i + 1, "the first call" if i == 0 else "after %d earlier call(s): state is carried over from one token to the next" % i)
                break
        return out, it
    try:
        cells = enumerate_cells(run, {}, max_cells=32)
    except (Budget, NeedAtom, DomainGrew) as x:
        ctx.undecided("C20.hmac", w, "token construction", "getToken could not be executed: %s" % (x,))
        return None
    notes = sorted({n for _c, r in cells for n in r["notes"]})
    if notes:
        ctx.undecided("C20.hmac", w, "token construction", "operations outside the byte-string model: %s" % "; ".join(notes[:2]))
        return None
    bad = []
    for cell, r in cells:
        if r["raised"]:
            bad.append("getToken raises %s" % r["raised"][:60])
        elif not r["same"]:
            bad.append("the token is %s" % r["got"])
    for label in ("key: the first 64 bytes of the class's key constant, XOR 0x5c outside / 0x36 inside", "MAC covers signature || class digest || phone number, in that order",
                  "SHA-1 inside and outside", "token = base64 of the 20-byte digest", "three tokens in a row (two numbers on one object, one on another object) each equal their own reference", "no path raises (%d path class(es))" % len(cells)):
        ctx.check("C20.hmac", not bad, w, label, "; ".join(sorted(set(bad))[:2]) + " - the registration token must be base64(SHA1((K^opad) || SHA1((K^ipad) || signature || classes || phone)))", "as the format requires")
    return not bad


def describe_token(alg, atoms):
    def d(atoms):
        out = []
        for a in atoms:
            if a[0] == "const":
                out.append("%d const byte(s)" % len(a[1]))
            elif a[0] == "sym":
                nm = a[1]
                if isinstance(nm, tuple) and nm[0] == "HASH":
                    out.append("%s(%s)[%s:%s]" % (nm[1], d(nm[2]), a[2], a[2] + a[3] if a[3] is not None else "?"))
                elif isinstance(nm, tuple) and nm[0] in ("B64", "HEX"):
                    out.append("%s(%s)" % (nm[0].lower(), d(nm[1])))
                elif isinstance(nm, tuple) and nm[0] == "MAC":
                    out.append("hmac-%s(key %s, %s)" % (nm[2], d(nm[1]), d(nm[3])))
                else:
                    out.append("%s[%s:%s]" % (nm[0] if isinstance(nm, tuple) else nm, a[2], a[2] + a[3] if a[3] is not None else "?"))
            else:
                out.append(a[0])
        return " || ".join(out) or "nothing"
    return d(alg.normalise(atoms))[:300]


def env_exec(repo, cls):
    """encryptParams(params, key), abstractly executed three times (twice on one request object, once on another) on
    the byte-string algebra with the curve / AES-GCM library scripted: every generated pair is a new one (pair #n with
    32 public bytes PUB#n and a private half), an agreement is a 32-byte value named by its two inputs, a sealing a value
    named by key, nonce, plaintext and associated data.  -> list of problems (strings), or None when it cannot be followed"""
    from ..absint import Interp, Obj, _Raise, NeedAtom, Budget, DomainGrew, enumerate_cells, show, C_NONE
    from ..bytealg import BytesAlg
    PARAMS = [("cc", "49"), ("in", "1512345-6_7~8"), ("id", b"\x00\xffA."), ("lg", "de gr\u00fc\u00df")]

    def run(cell, domains):
        alg = BytesAlg()
        hooks = alg.hooks()
        pairs, ciphers = [], {}

        def lab(v):
            return v[1] if isinstance(v, tuple) and v and v[0] == "ext" else None

        def gen(it, recv, a, k, env, d, e):
            n = len(pairs) + 1
            o = Obj(None)
            o.fields["privateKey"] = ("ext", "priv#%d" % n, [])
            o.fields["publicKey"] = ("ext", "pub#%d" % n, [])
            pairs.append(n)
            return ("obj", o)

        def pub_bytes(n, it):
            return ("sym", ("PUB", n), 0, 32)

        def serialize(it, recv, a, k, env, d, e):
            if lab(recv) and lab(recv).startswith("pub#"):
                n = int(lab(recv)[4:])
                alg.base_len[("PUB", n)] = 32
                return alg.bt(it, [("const", b"\x05"), pub_bytes(n, it)])
            return None

        def raw(it, recv, a, k, env, d, e):
            if lab(recv) and lab(recv).startswith("pub#"):
                n = int(lab(recv)[4:])
                alg.base_len[("PUB", n)] = 32
                return alg.bt(it, [pub_bytes(n, it)])
            return None

        def agree(it, recv, a, k, env, d, e):
            if len(a) != 2:
                return None
            return alg.content(it, ("AGREE", lab(a[0]) or alg.canon(a[0]), lab(a[1]) or alg.canon(a[1])), 32)
        base_extcall = hooks.get("extcall")

        def extcall(it, label, args, kwargs, env, depth, e):
            if label.split(".")[-1].rstrip("()") == "AESGCM" and len(args) == 1:
                v = ("ext", "AESGCM#%d" % (len(ciphers) + 1), [])
                ciphers[v[1]] = alg.canon(args[0])
                return v
            if label.split(".")[-1].rstrip("()") in ("quote", "urllib_quote", "quote_plus", "quote_from_bytes") and args:
                # the standard library's percent-encoding of a known string / byte string is computed
                import urllib.parse as _up
                x = it.force(args[0])
                xa = alg.atoms_of(x) if x[0] != "c" else None
                val = x[1] if x[0] == "c" and isinstance(x[1], (str, bytes, bytearray)) else (b"".join(a_[1] for a_ in alg.normalise(xa)) if xa is not None and all(a_[0] == "const" for a_ in xa) else None)
                safe = kwargs.get("safe", args[1] if len(args) > 1 else ("c", "/"))
                if val is not None and safe[0] == "c" and isinstance(safe[1], (str, bytes)):
                    fn_ = _up.quote_plus if label.split(".")[-1].rstrip("()") == "quote_plus" else _up.quote
                    return ("c", fn_(bytes(val) if not isinstance(val, str) else val, safe=safe[1]))
            return base_extcall(it, label, args, kwargs, env, depth, e) if base_extcall else None

        def seal(it, recv, a, k, env, d, e):
            if lab(recv) in ciphers and len(a) == 3:
                parts = [alg.atoms_of(x) if x != C_NONE else [] for x in a]
                if parts[1] is None:
                    return None
                n = alg.total(alg.normalise(parts[1]))
                return alg.content(it, ("GCM", ciphers[lab(recv)]) + tuple(tuple(alg.normalise(p_)) if p_ is not None else ("?",) for p_ in parts), (n + 16) if n is not None else None)
            return None
        # the parameter string is C20.order's business and is computed once, outside the byte algebra (whose mutable
        # bytearray objects are not what a class-body escape table wants); inside, a call of urlencodeParams with the
        # request's parameter list gives that string
        plain_it = Interp(repo, {}, {}, hooks={"extcall": lambda itp, label, args, kwargs, env, depth, e: extcall(itp, label, args, kwargs, env, depth, e) if label.split(".")[-1].rstrip("()") in ("quote", "urllib_quote", "quote_plus", "quote_from_bytes") else None})
        plain_it.max_steps = 400000
        known = {}

        def url_params(itp, fn_, owner_, self_val, a, k):
            if a and id(a[0]) in known:
                return ("c", known[id(a[0])])
            return None
        hooks["fn:urlencodeParams"] = url_params
        hooks.update({"ext:*.generateKeyPair": gen, "ext:*.serialize": serialize, "ext:*.getPublicKey": raw, "ext:*.calculateAgreement": agree, "extcall": extcall, "ext:*.encrypt": seal})
        it = Interp(repo, cell, domains, hooks=hooks)
        it.max_steps = 400000
        env = {"@module": cls.module, "@owner": cls}
        KEY = ("ext", "SERVERKEY", [])
        problems = []
        objs = [("obj", Obj(cls)), ("obj", Obj(cls))]
        for i, o in enumerate((objs[0], objs[0], objs[1])):
            params = ("list", [("list", [("c", k_), ("c", v_)]) for k_, v_ in PARAMS])
            before = len(pairs)
            try:
                want_pt = plain_it.force(plain_it.method_call(("obj", Obj(cls)), "urlencodeParams", [params], {}, env, 0, None))
                if want_pt[0] == "c" and isinstance(want_pt[1], str):
                    known[id(params)] = want_pt[1]
                r = it.method_call(o, "encryptParams", [params, KEY], {}, env, 0, None)
            except _Raise as x:
                problems.append("call %d raises %s" % (i + 1, (x.text or "")[:60]))
                break
            if want_pt[0] != "c" or not isinstance(want_pt[1], str):
                return None, it
            made = pairs[before:]
            # urlencodeParams above generates nothing; the call itself must generate exactly one pair
            if len(made) != 1:
                problems.append("call %d generates %d key pair(s): every request needs exactly one pair of its own%s" % (i + 1, len(made), " (an earlier pair is used again)" if not made and pairs else ""))
                break
            n = made[0]
            r = it.force(r)
            items = it.iterate(r) if r[0] in ("list", "c") else None
            pair = it.iterate(it.force(items[0])) if items and len(items) == 1 else None
            if not pair or len(pair) != 2 or pair[0] != ("c", "ENC"):
                problems.append("call %d returns %s, not [('ENC', payload)]" % (i + 1, show(r)[:60]))
                break
            got = alg.atoms_of(it.force(pair[1]))
            agree_nm = ("AGREE", "SERVERKEY", "priv#%d" % n)
            gcm = ("GCM", (("sym", agree_nm, 0, 32),), (("const", bytes(12)),), (("const", want_pt[1].encode()),), ())
            ct_len = len(want_pt[1].encode()) + 16
            want = [("sym", ("B64", (("sym", ("PUB", n), 0, 32), ("sym", gcm, 0, ct_len))), 0, 4 * ((32 + ct_len + 2) // 3))]
            if got is None or alg.normalise(got) != want:
                problems.append("call %d: the payload is  %s  - the format is  base64(PUB#%d[0:32] || GCM(key agreement(server key, priv#%d), 12 zero bytes, urlencodeParams(params), no associated data))" % (i + 1, describe_env(alg, got) if got is not None else show(pair[1])[:80], n, n))
                break
        return (problems, list(alg.notes)), it
    try:
        cells = enumerate_cells(run, {}, max_cells=32)
    except (Budget, NeedAtom, DomainGrew):
        return None
    out = []
    for _c, r in cells:
        if r is None or r[1]:
            return None
        out += r[0]
    return sorted(set(out))


def describe_env(alg, atoms):
    def d(atoms):
        out = []
        for a in atoms:
            if a[0] == "const":
                out.append("%d const byte(s) %s" % (len(a[1]), a[1][:12].hex()))
            elif a[0] == "sym":
                nm = a[1]
                rng = "[%s:%s]" % (a[2], a[2] + a[3] if a[3] is not None else "?")
                if isinstance(nm, tuple) and nm[0] == "B64":
                    out.append("base64(%s)" % d(nm[1]))
                elif isinstance(nm, tuple) and nm[0] == "GCM":
                    out.append("GCM(key %s, nonce %s, plaintext %s, aad %s)%s" % (d(nm[1]) if isinstance(nm[1], tuple) and nm[1] and isinstance(nm[1][0], tuple) else nm[1], d(nm[2]), d(nm[3])[:40], d(nm[4]), rng))
                elif isinstance(nm, tuple) and nm[0] == "AGREE":
                    out.append("agreement(%s, %s)" % (nm[1], nm[2]))
                elif isinstance(nm, tuple) and nm[0] == "PUB":
                    out.append("PUB#%d%s" % (nm[1], rng))
                else:
                    out.append("%s%s" % (nm[0] if isinstance(nm, tuple) else nm, rng))
            else:
                out.append(str(a[0]))
        return " || ".join(out) or "nothing"
    return d(alg.normalise(atoms))[:400]


def rule_env(ctx):
    repo = ctx.repo
    cls = repo.cls(REQ, "WARequest")
    fn = repo.method(REQ, "WARequest", "encryptParams")
    w = where(REQ, "WARequest.encryptParams", fn.lineno)
    probs = env_exec(repo, cls)
    if probs is not None:
        # decided by execution: three requests in a row, each payload compared with the format as a value
        for label in ("one new ephemeral pair per request (three requests, two on one object)", "AES-GCM keyed with agreement(server key parameter, private half of that pair)",
                      "nonce: 12 zero bytes; no associated data", "plaintext = urlencodeParams(params).encode()", "payload = base64(public half of the same pair, without type byte || ciphertext)"):
            ctx.check("C20.env", not probs, w, label, "; ".join(probs[:2]), "as the format requires")
        sg = repo.method(REQ, "WARequest", "sendGetRequest")
        calls = [c for c in ast.walk(sg) if isinstance(c, ast.Call) and is_self_attr(c.func, "encryptParams")]
        ok = len(calls) == 1 and [unparse(a) for a in calls[0].args] == ["self.params", "self.ENC_PUBKEY"]
        ctx.check("C20.env", ok, where(REQ, "WARequest.sendGetRequest", sg.lineno), calls[0] if calls else sg, "sendGetRequest must encrypt self.params under self.ENC_PUBKEY", "encryptParams(self.params, self.ENC_PUBKEY)")
        return
    from ..repo import inline_private_calls
    from ..normalize import guarded_returns_to_ifexp
    fn = inline_private_calls(repo, cls, fn, helper_transform=guarded_returns_to_ifexp)     # a private sealing helper is part of the envelope
    ev = Evaluator(repo, cls.module, cls)
    g = CFG(fn)
    pe = PathEval(fn, ev)
    res = [r for r in all_path_results(g, pe) if r["terminal"] == "exit"]
    if not res:
        ctx.undecided("C20.env", w, fn, "no normal path through encryptParams")
        return
    for r in res:
        _env_path(ctx, repo, fn, w, r)
    # the caller passes the request's parameter list and the server key constant
    sg = repo.method(REQ, "WARequest", "sendGetRequest")
    calls = [c for c in ast.walk(sg) if isinstance(c, ast.Call) and is_self_attr(c.func, "encryptParams")]
    ok = len(calls) == 1 and [unparse(a) for a in calls[0].args] == ["self.params", "self.ENC_PUBKEY"]
    ctx.check("C20.env", ok, where(REQ, "WARequest.sendGetRequest", sg.lineno), calls[0] if calls else sg, "sendGetRequest must encrypt self.params under self.ENC_PUBKEY", "encryptParams(self.params, self.ENC_PUBKEY)")

def _env_path(ctx, repo, fn, w, r):
    ps = params_of(fn)
    P, KEY = ("param", ps[0]), ("param", ps[1])
    gens = [e for e in r["events"] if e["func"] == "generateKeyPair"]
    if len(gens) != 1:
        ctx.violate("C20.env", w, fn, "exactly one ephemeral key pair must be generated inside the call (found %d): the pair would be reused across requests" % len(gens))
        return
    kp = gens[0]["result"]
    cached = [n for n in ast.walk(fn) if isinstance(n, (ast.Assign, ast.AugAssign)) and any(isinstance(t, ast.Attribute) for t in (n.targets if isinstance(n, ast.Assign) else [n.target]))]
    ctx.check("C20.env", not cached, w, "ephemeral pair " + show(kp), "the generated pair is stored on the object/class (%s): not fresh per request" % [unparse(c)[:50] for c in cached], "generated inside the call, not stored")
    ag = [e for e in r["events"] if e["func"] == "calculateAgreement"]
    ok = len(ag) == 1 and ag[0]["args"] == (KEY, ("attr", kp, "privateKey"))
    ctx.check("C20.env", ok, w, "agreement " + (show(ag[0]["result"]) if ag else "?"), "the AES key must be agreement(server key parameter, private key of the pair generated in this call)", "agreement(server key, ephemeral private key)")
    aes = [e for e in r["events"] if e["func"] == "AESGCM"]
    okc = len(aes) == 1 and ag and aes[0]["args"] == (ag[0]["result"],)
    ctx.check("C20.env", bool(okc), w, "cipher " + (show(aes[0]["result"])[:80] if aes else "?"), "AES-GCM must be keyed with the agreement", "AESGCM(agreement)")
    enc = [e for e in r["events"] if e["func"] == "encrypt" and aes and e["recv"] == aes[0]["result"]]
    okp = False
    if len(enc) == 1 and len(enc[0]["args"]) == 3:
        pt = enc[0]["args"][1]
        okp = pt[0] == "call" and pt[1] == "encode" and pt[2][0] == "call" and pt[2][1] == "urlencodeParams" and pt[2][3] == (P,)
    ctx.check("C20.env", okp, w, "plaintext " + (show(enc[0]["args"][1]) if enc and len(enc[0]["args"]) > 1 else "?"), "the plaintext must be urlencodeParams(params).encode() of the params argument", "plaintext = urlencodeParams(params)")
    ret = r["ret"]
    okr = False
    payload = None
    for t in subterms(ret):
        if t[0] == "call" and t[1] == "b64encode" and t[3]:
            payload = t[3][0]
    if payload is not None and payload[0] == "bin" and payload[1] == "Add" and enc:
        pub, ct = payload[2], payload[3]
        okpub = pub[0] == "slice" and pub[2] == ("const", 1) and pub[3] == ("const", None) and pub[1][0] == "call" and pub[1][1] == "serialize" and pub[1][2] == ("attr", kp, "publicKey")
        okr = okpub and ct == enc[0]["result"]
    ctx.check("C20.env", okr, w, "payload " + (show(payload)[:100] if payload else "?"), "payload must be base64(public key of the same generated pair (without type byte) || ciphertext)", "payload = ephemeral public key || ciphertext")

def rule_order(ctx):
    repo = ctx.repo
    cls = repo.cls(REQ, "WARequest")
    up = repo.method(REQ, "WARequest", "urlencodeParams")
    w = where(REQ, "WARequest.urlencodeParams", up.lineno)
    # urlencodeParams, abstractly executed on lists of (name, value) pairs: name=urlencode(value) joined by & in list order
    from ..absint import Interp as _I, _Raise as _R, NeedAtom as _NA, Budget as _B
    import urllib.parse as _up2

    def _q(itp, e, a, k, env, d):
        if a and all(x[0] == "c" for x in a) and all(v[0] == "c" for v in k.values()):
            return ("c", _up2.quote(*[x[1] for x in a], **{kk: v[1] for kk, v in k.items()}))
        return None
    it0 = _I(repo, {}, {}, hooks={"builtin:urllib_quote": _q, "builtin:quote": _q})
    cases = [([("b", "2"), ("a", "1"), ("c", "x y")], "b=2&a=1&c=x%20y"), ([("a", "1"), ("b", "2")], "a=1&b=2"), ([("z", "\u00e9"), ("a", b"\xff")], "z=%c3%a9&a=%ff"), ([], "")]
    bad, unknown = [], None
    for pairs, want_ in cases:
        arg = ("list", [("c", p_) for p_ in pairs])
        try:
            r = it0.call_function(up, cls, ("cls", cls), [arg], {}, depth=0)
        except _R as x:
            bad.append("%r raises %s" % (pairs, x.text[:40]))
            continue
        except (_NA, _B) as x:
            unknown = str(x)
            break
        if r[0] != "c":
            unknown = "result for %r is not a constant" % (pairs,)
            break
        if r[1] != want_:
            bad.append("%r -> %r, expected %r" % (pairs, r[1], want_))
    if unknown:
        ctx.undecided("C20.order", w, up, "urlencodeParams could not be evaluated: " + unknown)
    else:
        ctx.check("C20.order", not bad, w, "name=urlencode(value) joined by & in list order",
                  "parameters must be visited in list order (no sorting / reordering), each emitted as name=urlencode(value), joined with &: " + "; ".join(bad[:2]), "list order kept; name=urlencode(value); '&'.join")
    # addParam appends to a list
    ap = repo.method(REQ, "WARequest", "addParam")
    ok = any(isinstance(c, ast.Call) and unparse(c.func) == "self.params.append" and isinstance(c.args[0], ast.Tuple) and [unparse(e) for e in c.args[0].elts] == params_of(ap) for c in ast.walk(ap))
    init = repo.method(REQ, "WARequest", "__init__")
    lst = any(isinstance(n, ast.Assign) and unparse(n.targets[0]) == "self.params" and isinstance(n.value, ast.List) for n in ast.walk(init))
    ctx.check("C20.order", ok and lst, where(REQ, "WARequest.addParam", ap.lineno), "self.params.append((name, value))", "parameters must be kept in a list in insertion order", "list, appended in order")
    # urlencode over its whole finite domain: every byte value (as a one-byte bytes value), every one-character ASCII str,
    # and non-ASCII characters - abstractly executed with urllib's quote as the only primitive.  Expected: unreserved
    # characters [A-Za-z0-9.] literally, everything else (also - _ ~) as lower-case %xx of its UTF-8 bytes, one escape
    # per byte of a bytes value
    ue = repo.method(REQ, "WARequest", "urlencode")
    wu = where(REQ, "WARequest.urlencode", ue.lineno)
    from ..absint import Interp, _Raise, NeedAtom, Budget
    import urllib.parse as _up

    def quote_hook(itp, e, a, k, env, d):
        if a and a[0][0] == "c" and all(v[0] == "c" for v in k.values()) and all(x[0] == "c" for x in a):
            try:
                return ("c", _up.quote(*[x[1] for x in a], **{kk: v[1] for kk, v in k.items()}))
            except Exception as x:
                raise _Raise(("ext", type(x).__name__, []), str(x))
        return None
    it = Interp(repo, {}, {}, hooks={"builtin:urllib_quote": quote_hook, "builtin:quote": quote_hook})

    def want(bs):
        return "".join(chr(b) if (chr(b).isalnum() and b < 128) or chr(b) == "." else "%%%02x" % b for b in bs)
    samples = [bytes([b]) for b in range(256)] + [chr(b) for b in range(128)] + ["\u00e9", "\u20ac", "a-b_c~d.e f", b"\x00\xff-_~"]
    bad, unknown = [], None
    for v in samples:
        try:
            r = it.call_function(ue, cls, ("cls", cls), [("c", v)], {}, depth=0)
        except _Raise as x:
            bad.append("%r raises %s" % (v, x.text[:40]))
            continue
        except (NeedAtom, Budget) as x:
            unknown = "%r: %s" % (v, x)
            break
        if r[0] != "c" or not isinstance(r[1], str):
            unknown = "%r evaluates to %s" % (v, r[0])
            break
        w_ = want(v if isinstance(v, bytes) else v.encode("utf-8"))
        if r[1] != w_:
            bad.append("%r -> %r, expected %r" % (v, r[1], w_))
    if unknown:
        ctx.undecided("C20.order", wu, ue, "urlencode could not be evaluated: " + unknown)
    else:
        ctx.check("C20.order", not bad, wu, "percent-encoding of every byte value / ASCII character",
                  "every character of the value must be quoted with no safe characters, lower-case escapes, one escape per byte (a byte of a bytes value must be quoted as that single byte): " + "; ".join(bad[:3]) + (" (+%d)" % (len(bad) - 3) if len(bad) > 3 else ""),
                  "only [A-Za-z0-9.] literal, everything else %%xx lower case (%d inputs)" % len(samples))
    num = None
    try:
        num = it.call_function(ue, cls, ("cls", cls), [("c", 4915)], {}, depth=0)
    except (_Raise, NeedAtom, Budget):
        pass
    conv = num == ("c", "4915")
    ctx.check("C20.order", conv, wu, "non-text values", "values that are neither str nor bytes must be converted with str()", "numbers converted with str()")
    # the token parameter is the env token of the national number
    for rel, cn in (("yowsup/registration/coderequest.py", "WACodeRequest"), ("yowsup/registration/existsrequest.py", "WAExistsRequest")):
        c = repo.cls(rel, cn, required=False)
        if c is None:
            continue
        init = c.methods.get("__init__")
        tok = [x for x in ast.walk(init) if isinstance(x, ast.Call) and is_self_attr(x.func, "addParam") and x.args and isinstance(x.args[0], ast.Constant) and x.args[0].value == "token"]
        ok = len(tok) == 1 and isinstance(tok[0].args[1], ast.Call) and unparse(tok[0].args[1].func).endswith("getToken") and unparse(tok[0].args[1].args[0]) == "self._p_in"
        ctx.check("C20.order", ok, where(rel, cn + ".__init__", init.lineno), tok[0] if tok else init, "the token parameter must be getToken(national number)", "token = getToken(self._p_in)")


def run(ctx):
    ctx.rule("C20.hmac", "keyed-hash construction shape of getToken (hand-built or library HMAC)", floor=5)
    ctx.rule("C20.env", "envelope provenance in encryptParams", floor=6)
    ctx.rule("C20.order", "parameter order and percent-encoding table (finite-domain evaluation of urlencode / urlencodeParams)", floor=6)
    ctx.assume("SHA-1, base64, X25519 agreement and AES-GCM primitives are trusted; equality with independent computations is not decided")
    decided = ctx.guarded("C20.hmac", rule_hmac_exec, ctx)
    if decided is None:
        ctx.guarded("C20.hmac", rule_hmac, ctx)          # the execution was not possible: the structural reading decides
    ctx.guarded("C20.env", rule_env, ctx)
    ctx.guarded("C20.order", rule_order, ctx)
