"""C10 by abstract execution: the converter's own code is run on protobuf stand-ins (sa/protomodel) and real attribute
classes; the round trip is compared value by value.

For every converter pair K (K_to_proto(attrs) / proto_to_K(proto), both present, forward side taking the attribute
object only), and once more through message_to_protobytes / protobytes_to_message:

  full        P := a message of K's type with every described field set to a distinct opaque value (nested messages to
              depth 3); A0 := proto_to_K(P); A := A0 with every attribute that is still None set to a distinct opaque
              value; A1 := proto_to_K(K_to_proto(A)).  A1 must equal A attribute by attribute (deeply).  Opaque values
              have no known truthiness: a converter that tests `if value:` splits the scenario, and in the half where the
              value is falsy (0, '', b'') it must still come back.
  none:<a>    the same with the single optional attribute a (constructor default) None, all others set: must serialise
              without raising and come back as None (the field's proto default is tolerated and noted: the tree reads
              several optional fields without HasField, a convention the property does not forbid), all others unchanged.
  peer        P1 := K_to_proto(proto_to_K(P)): every field of P1 equals the same field of P, every field proto_to_K read
              from P is in P1 (a payload received from a peer is re-serialised without changing a modelled field).
  peer-empty  the same for the empty message: nothing becomes present that was absent (proto defaults tolerated).

Nothing here depends on how the converter is written: loops over field tables, getattr/setattr, helpers, aliases,
keyword or starred constructor arguments are all just executed.
"""
import ast

from ..absint import Interp, Obj, NeedAtom, DomainGrew, _Raise, Budget, C_NONE, enumerate_cells, show
from ..protomodel import ProtoModel
from ..report import where
from ..repo import params_of

CONV = "yowsup/layers/protocol_messages/protocolentities/attributes/converter.py"


def _is_default(v):
    return isinstance(v, tuple) and v[0] == "ext" and v[1].startswith("default:")


def _is_opaque(v):
    return isinstance(v, tuple) and v[0] == "ext" and (v[1].startswith("p:") or v[1].startswith("a:"))


class Runner:
    def __init__(self, ctx, cv):
        self.ctx = ctx
        self.cv = cv
        self.repo = ctx.repo
        self.cls = cv.cls
        self.max_cells = 200         # (the unchanged tree needs at most 4 cells per scenario)
        self.most_cells = 0
        self.kinds = []
        for k in sorted(set(cv.fwd) & set(cv.rev)):
            f = self.cls.methods.get(k + "_to_proto")
            r = self.cls.methods.get("proto_to_" + k)
            if f is not None and r is not None and len(params_of(f)) == 1 and len(params_of(r)) == 1:
                self.kinds.append(k)
        self.types = {}
        self.accessed = set()

    # ---- plumbing
    def interp(self, cell, domains):
        pm = ProtoModel(self.cv.descs)
        it = Interp(self.repo, cell, domains, mode="route", hooks=pm.hooks())
        it.maybe_falsy = _is_opaque
        conv = it.construct(self.cls, [], {}, {"@module": self.cls.module, "@owner": None}, 0, None)
        return it, pm, conv

    def call(self, it, conv, name, args):
        return it.method_call(conv, name, list(args), {}, {"@module": self.cls.module, "@owner": None}, 0, None)

    def discover_type(self, kind):
        """message type K_to_proto returns (by running it on an attribute object nothing is known about)"""
        if kind in self.types:
            return self.types[kind]
        cell = {}
        t = None
        for _ in range(200):
            it, pm, conv = self.interp(cell, {})
            try:
                r = self.call(it, conv, kind + "_to_proto", [("ext", "probe", [])])
                if pm.is_proto(r):
                    t = pm.type_of(r)
                break
            except NeedAtom as na:
                cell = dict(cell)
                cell[na.atom] = None if na.atom[0] in ("A", "E") else True
            except (_Raise, Budget, DomainGrew):
                break
        if t is None:
            ts = self.cv.ptypes_fwd.get(kind) or set()
            t = sorted(ts)[0] if len(ts) == 1 else None
        self.types[kind] = t
        return t

    # ---- attribute objects
    def own_objects(self, pm, v, top=True, out=None, path=""):
        """attribute objects that belong to this pair: the object itself and nested ones whose class has no pair of its
        own (the media base attributes of an image); -> [(path, Obj)]"""
        out = [] if out is None else out
        if not (isinstance(v, tuple) and v[0] == "obj" and v[1].cls is not None):
            return out
        out.append((path, v[1]))
        for k, x in v[1].fields.items():
            if k.startswith("@"):
                continue
            if isinstance(x, tuple) and x[0] == "obj" and x[1].cls is not None and x[1].id not in pm.meta:
                if self.class_kind(x[1].cls) is None:
                    self.own_objects(pm, x, False, out, path + k.lstrip("_") + ".")
        return out

    def class_kind(self, cls):
        """kind whose reverse converter builds this class (decided from the return annotations / constructor calls)"""
        m = getattr(self, "_ck", None)
        if m is None:
            m = self._ck = {}
            for k in self.kinds:
                r = self.cls.methods["proto_to_" + k]
                for c in ast.walk(r):
                    if isinstance(c, ast.Call):
                        kc = self.repo.resolve_expr_class(self.cls.module, c.func) if isinstance(c.func, (ast.Name, ast.Attribute)) else None
                        if kc is not None and kc.name.endswith("Attributes"):
                            m.setdefault(kc.qname, k)
        return m.get(cls.qname)

    def optional_fields(self, o):
        """instance fields whose constructor parameter has a default"""
        k, init = self.repo.find_method(o.cls, "__init__")
        if init is None:
            return set()
        ps = [a.arg for a in init.args.args][1:]
        nd = len(init.args.defaults)
        opt = set(ps[len(ps) - nd:]) if nd else set()
        opt |= {a.arg for a, d in zip(init.args.kwonlyargs, init.args.kw_defaults) if d is not None}
        out = set()
        for f in o.fields:
            if f.startswith("@"):
                continue
            if f.lstrip("_") in opt:
                out.add(f)
        return out

    def fill(self, pm, objs, skip=None):
        filled = []
        for path, o in objs:
            for f, v in list(o.fields.items()):
                if f.startswith("@"):
                    continue
                if (path + f) == skip:
                    o.fields[f] = C_NONE
                    continue
                if v == C_NONE:
                    o.fields[f] = ("ext", "a:%s%s" % (path, f.lstrip("_")), [])
                    filled.append(path + f)
        return filled

    # ---- comparison
    def diff(self, pm, a, b, path, out, seen=None):
        seen = seen if seen is not None else set()
        if isinstance(a, tuple) and isinstance(b, tuple) and a[0] == "obj" and b[0] == "obj":
            key = (a[1].id, b[1].id)
            if key in seen:
                return
            seen.add(key)
            if a[1].id in pm.meta or b[1].id in pm.meta:
                if not (a[1].id in pm.meta and b[1].id in pm.meta):
                    out.append((path, a, b))
                    return
                fa, fb = set(pm.present_fields(a[1])), set(pm.present_fields(b[1]))
                for f in sorted(fa | fb):
                    self.diff(pm, a[1].fields.get(f, ("absent",)) if f in fa else ("absent",), b[1].fields.get(f, ("absent",)) if f in fb else ("absent",), path + "." + f, out, seen)
                return
            if a[1].cls is not b[1].cls:
                out.append((path, a, b))
                return
            for f in sorted(set(a[1].fields) | set(b[1].fields)):
                if f.startswith("@"):
                    continue
                self.diff(pm, a[1].fields.get(f, ("absent",)), b[1].fields.get(f, ("absent",)), (path + "." if path else "") + f.lstrip("_"), out, seen)
            return
        if isinstance(a, tuple) and isinstance(b, tuple) and a[0] == "list" and b[0] == "list":
            if len(a[1]) != len(b[1]):
                out.append((path, a, b))
                return
            for i, (x, y) in enumerate(zip(a[1], b[1])):
                self.diff(pm, x, y, "%s[%d]" % (path, i), out, seen)
            return
        if a == b:
            return
        if isinstance(a, tuple) and isinstance(b, tuple) and a[0] == "c" and b[0] == "c" and a[1] == b[1] and type(a[1]) is type(b[1]):
            return
        out.append((path, a, b))

    @staticmethod
    def brief(v):
        if not isinstance(v, tuple):
            return repr(v)
        if v == ("absent",):
            return "absent"
        if v[0] == "c":
            return repr(v[1])
        if v[0] == "ext":
            return v[1]
        if v[0] == "obj":
            return "<%s>" % (v[1].cls.name if v[1].cls is not None else "message")
        if v[0] == "list":
            return "[%s]" % ", ".join(Runner.brief(x) for x in v[1][:4])
        return show(v)[:60]

    # ---- scenarios
    def scenario(self, kind, mode, skip=None, via_bytes=False):
        """-> list of (cell, outcome) ; outcome = {"raised": text | None, "stage":, "diffs": [(path, want, got)], "falsy": [...],
        "objs": [(path, cls name, optional fields)], "counts": (set, get, has), "unmodelled": [...]}"""
        t = self.types.get(kind)
        fwd = kind + "_to_proto"
        rev = "proto_to_" + kind

        def to_wire(it, conv, a):
            if via_bytes:
                return self.call(it, conv, "message_to_protobytes", [a])
            return self.call(it, conv, fwd, [a])

        def from_wire(it, conv, p):
            if via_bytes:
                return self.call(it, conv, "protobytes_to_message", [p])
            return self.call(it, conv, rev, [p])

        def run(cell, domains):
            it, pm, conv = self.interp(cell, domains)
            res = {"raised": None, "stage": None, "diffs": [], "objs": [], "unmodelled": pm.unmodelled, "counts": (0, 0, 0), "tolerated": []}
            stage = "building the scenario"
            try:
                budget = 3 if kind == "message" else 2
                P = pm.new(it, t) if mode == "peer-empty" else pm.populate(it, t, budget)
                if mode in ("peer", "peer-empty"):
                    stage = rev
                    A0 = self.call(it, conv, rev, [P])
                    reads = {oid: set(m["reads"]) for oid, m in pm.meta.items()}
                    if mode == "peer-empty":
                        # attributes the reverse side leaves None when the peer did not send the field: optional by the
                        # converter's own account
                        res["empty_none"] = {p_ + f_ for p_, o_ in self.own_objects(pm, A0) for f_, v_ in o_.fields.items() if not f_.startswith("@") and v_ == C_NONE}
                    stage = fwd
                    P1 = self.call(it, conv, fwd, [A0])
                    if not pm.is_proto(P1):
                        res["raised"] = "%s returned %s, not a message" % (fwd, self.brief(P1))
                    else:
                        self.peer_compare(pm, P[1], P1[1], reads, kind, res, "")
                    res["counts"] = (pm.n_set, pm.n_get, pm.n_has)
                    res["accessed"] = set(pm.accessed)
                    return res, it
                stage = rev
                A0 = self.call(it, conv, rev, [P])
                objs = self.own_objects(pm, A0)
                res["objs"] = [(p, o.cls.name, sorted(self.optional_fields(o))) for p, o in objs]
                self.fill(pm, objs, skip=skip)
                stage = "message_to_protobytes" if via_bytes else fwd
                W = to_wire(it, conv, A0)
                stage = "protobytes_to_message" if via_bytes else rev
                A1 = from_wire(it, conv, W)
                d = []
                self.diff(pm, A0, A1, "", d)
                res["diffs"] = d
                res["counts"] = (pm.n_set, pm.n_get, pm.n_has)
                res["accessed"] = set(pm.accessed)
                res["nfields"] = sum(len([f for f in o.fields if not f.startswith("@")]) for _, o in objs)
            except _Raise as r:
                res["raised"] = str(r.args[1] if len(r.args) > 1 else r)[:160]
                res["stage"] = stage
            return res, it
        cells_ = enumerate_cells(run, {}, max_cells=self.max_cells)
        self.most_cells = max(getattr(self, "most_cells", 0), len(cells_))
        return cells_

    def peer_compare(self, pm, p, p1, reads, kind, res, path):
        f0, f1 = set(pm.present_fields(p)), set(pm.present_fields(p1))
        for f in sorted(f1):
            v1 = p1.fields[f]
            v0 = p.fields.get(f) if f in f0 else None
            if v0 is None:
                if _is_default(v1):
                    res["tolerated"].append(path + f)
                elif pm.is_proto(v1):
                    if self.only_defaults(pm, v1[1]):
                        res["tolerated"].append(path + f)       # a sub-message made of proto defaults only
                    else:
                        res["diffs"].append((path + f, ("absent",), v1))
                elif v1[0] == "list" and not v1[1]:
                    pass
                else:
                    res["diffs"].append((path + f, ("absent",), v1))
                continue
            if pm.is_proto(v0) and pm.is_proto(v1):
                self.peer_compare(pm, v0[1], v1[1], reads, kind, res, path + f + ".")
            else:
                d = []
                self.diff(pm, v0, v1, path + f, d)
                res["diffs"] += d
        for f in sorted((reads.get(p.id, set()) & f0) - f1):
            res["diffs"].append((path + f, p.fields[f], ("absent",)))


def _only_defaults(self, pm, o):
    for f in pm.present_fields(o):
        v = o.fields[f]
        if pm.is_proto(v):
            if not _only_defaults(self, pm, v[1]):
                return False
        elif not _is_default(v):
            return False
    return True


Runner.only_defaults = _only_defaults


def rule_roundtrip(ctx, cv):
    """-> set of kinds whose every scenario was decided clean"""
    rn = Runner(ctx, cv)
    for m in ctx.repo.modules.values():
        if m.relpath.startswith(CONV.rsplit("/", 1)[0] + "/"):
            ctx.repo.consulted.add(m.relpath)        # the attribute classes are executed (constructors, accessors)
    ctx.units["C10.rt_pairs"] = list(rn.kinds)
    clean = set()
    for kind in rn.kinds + ["<bytes>"]:
        via = kind == "<bytes>"
        k = "message" if via else kind
        fname = "AttributesConverter.%s" % ("message_to_protobytes/protobytes_to_message" if via else "%s_to_proto/proto_to_%s" % (k, k))
        fn = cv.cls.methods.get("message_to_protobytes" if via else k + "_to_proto")
        w = where(CONV, fname, getattr(fn, "lineno", None))
        if via and (cv.cls.methods.get("message_to_protobytes") is None or cv.cls.methods.get("protobytes_to_message") is None):
            ctx.undecided("C10.top", w, "bytes entry points", "message_to_protobytes / protobytes_to_message vanished")
            continue
        t = rn.discover_type(k)
        if t is None:
            ctx.undecided("C10.bij", w, fname, "the message type %s_to_proto returns could not be determined by running it" % k)
            continue
        ok = True
        try:
            full = rn.scenario(k, "full", via_bytes=via)
        except Budget:
            ctx.undecided("C10.bij", w, fname, "scenario budget exhausted")
            continue
        ok &= report(ctx, rn, k, "full", full, w, via)
        if not via:
            results = {}
            for mode in ("peer", "peer-empty"):
                try:
                    results[mode] = rn.scenario(k, mode)
                except Budget:
                    ctx.undecided("C10.bij", w, mode, "scenario budget exhausted")
                    ok = False
                    continue
                ok &= report(ctx, rn, k, mode, results[mode], w, via)
            # optional attributes, one at a time.  Optional = the constructor gives the parameter a default, or the reverse
            # side itself leaves the attribute None for a payload without the field (then the forward side has to accept
            # None too: the two sides must agree on what is optional)
            by_reverse = set()
            for _, r in results.get("peer-empty", []):
                by_reverse |= r.get("empty_none", set())
            objs = full[0][1]["objs"] if full else []
            for path, cname, opt in objs:
                names = set(opt) | {f[len(path):] for f in by_reverse if f.startswith(path) and "." not in f[len(path):]}
                for f in sorted(names):
                    try:
                        r = rn.scenario(k, "none", skip=path + f)
                    except Budget:
                        ctx.undecided("C10.has", w, "%s.%s" % (cname, f), "scenario budget exhausted")
                        ok = False
                        continue
                    ok &= report(ctx, rn, k, "none:" + path + f.lstrip("_"), r, w, via, skip=(path + f.lstrip("_")))
        if ok:
            clean.add("<bytes>" if via else k)
    wconv = where(CONV, "AttributesConverter", cv.cls.node.lineno if hasattr(cv.cls, "node") else None)
    for (t, f) in sorted(rn.accessed):
        ctx.hold("C10.desc", wconv, "%s.%s" % (t, f), "field exists in the descriptor (every access of it in the executed scenarios succeeded)")
    ctx.units["C10.rt_most_cells"] = rn.most_cells
    return clean


def report(ctx, rn, kind, mode, results, w, via, skip=None):
    """one obligation per compared attribute; -> True when the scenario is decided and clean"""
    rule_main = "C10.top" if (via or kind == "message") else "C10.bij"
    ok = True
    seen = set()
    nfields = 0
    for cell, res in results:
        falsy = sorted(a[1] if isinstance(a, tuple) else str(a) for a, v in cell.items() if v is False and "truth(" in str(a))
        when = (" when %s is falsy" % ", ".join(x[x.find("(") + 1:].rstrip(")")[:40] for x in falsy[:2])) if falsy else ""
        if res["unmodelled"]:
            key = ("unm", tuple(sorted(set(res["unmodelled"]))))
            if key not in seen:
                seen.add(key)
                ctx.undecided(rule_main, w, "%s scenario %s" % (kind, mode), "protobuf behaviour outside the model: %s" % "; ".join(sorted(set(res["unmodelled"]))[:2]))
            ok = False
            continue
        if res["raised"]:
            txt = res["raised"]
            rule = "C10.desc" if ("has no field" in txt) else ("C10.has" if mode.startswith("none") or falsy else rule_main)
            key = ("raise", txt)
            if key not in seen:
                seen.add(key)
                ctx.violate(rule, w, "%s scenario %s: %s" % (kind, mode, txt[:70]),
                            "%s raises in %s%s: %s" % ({"full": "a payload with every attribute set", "peer": "a peer's payload with every field present", "peer-empty": "an empty payload of a peer"}.get(mode, "a payload whose optional attribute %s is None" % skip), res["stage"], when, txt))
            ok = False
            continue
        for (path, want, got) in res["diffs"]:
            if mode.startswith("none") and path == skip:
                # the attribute the sender did not set: what it reads back as (None, the field's default, the value of an
                # attribute that shares its proto field) is not a field the sender set
                continue
            rule = rule_main
            if falsy or mode.startswith("none"):
                rule = "C10.has"
            key = (path, Runner.brief(want), Runner.brief(got), bool(falsy))
            if key in seen:
                continue
            seen.add(key)
            opaque_inside = isinstance(got, tuple) and got[0] == "fn" and want in _subvalues(got)
            if opaque_inside:
                ctx.undecided(rule, w, "%s %s: %s" % (kind, mode, path), "the value comes back as %s (a transformation the model does not invert)" % show(got)[:60])
            elif mode in ("peer", "peer-empty"):
                ctx.violate(rule, w, "%s %s: field %s" % (kind, mode, path),
                            "a peer's payload re-serialised: field %r was %s and becomes %s" % (path, Runner.brief(want), Runner.brief(got)))
            else:
                ctx.violate(rule, w, "%s %s: attribute %s" % (kind, mode, path),
                            "attribute %r set to %s comes back as %s after serialising and parsing%s%s" % (
                                path, Runner.brief(want), Runner.brief(got), when, (" (scenario: optional attribute %s is None)" % skip) if skip and path != skip else ""))
            ok = False
        nfields = max(nfields, res.get("nfields", 0))
    if ok:
        n = max(1, nfields)
        rule = "C10.has" if mode.startswith("none") else rule_main
        for i in range(n if mode == "full" else 1):
            ctx.hold(rule, w, "%s scenario %s #%d" % (kind, mode, i), "round trip equal in %d path class(es)" % len(results))
        c = max((r["counts"] for _, r in results), default=(0, 0, 0))
        ctx.units.setdefault("C10.rt_field_accesses", 0)
        ctx.units["C10.rt_field_accesses"] += c[0] + c[1] + c[2]
        for _, r in results:
            rn.accessed |= r.get("accessed", set())
    return ok


def _subvalues(v, out=None):
    out = [] if out is None else out
    if isinstance(v, tuple):
        out.append(v)
        for x in v:
            if isinstance(x, (tuple, list)):
                for y in (x if isinstance(x, list) else [x]):
                    _subvalues(y, out)
    return out


def key_distribution_only_question(ctx, cv):
    """AttributesConverter.protobytes_is_key_distribution_only(bytes), executed on protobuf stand-ins: payloads are built
    by interpreting small construction programs against the Message description, serialised and handed to the method.
    The answer must be True exactly for a payload whose only field is the sender-key distribution - the routing model of
    C03 / C06 / C07 (sa/routing.py) answers the same question from the field set and relies on the code agreeing.
    -> (list of problems, number of payloads) or None when the method / description is missing"""
    repo = ctx.repo
    cls = cv.cls
    if repo.find_method(cls, "protobytes_is_key_distribution_only")[1] is None:
        return None
    mtype = next((t for t in cv.descs if t.split(".")[-1] == "Message" and "sender_key_distribution_message" in cv.descs[t]), None)
    if mtype is None:
        return None
    fields = cv.descs[mtype]
    SK = "sender_key_distribution_message"
    msg_fields = [f for f, d in fields.items() if d["msg"] and f != SK and d["label"] != 3]
    scalar = [f for f, d in fields.items() if not d["msg"] and d["label"] != 3]
    modelled = {k for k in set(cv.fwd) | set(cv.rev)}
    unmodelled = [f for f in msg_fields if f.replace("_message", "") not in modelled and f not in modelled]
    payloads = [("only the sender-key distribution", [SK], True), ("nothing at all", [], False)]
    if scalar:
        payloads += [("a text", scalar[:1], False), ("the sender-key distribution and a text", [SK] + scalar[:1], False)]
    for f in msg_fields[:2]:
        payloads += [("only %s" % f, [f], False), ("the sender-key distribution and %s" % f, [SK, f], False)]
    for f in unmodelled[-1:]:
        payloads.append(("the sender-key distribution and %s (a kind the library does not present)" % f, [SK, f], False))
    problems = []
    for label, present, want in payloads:
        lines = ["m = Message()"]
        for f in present:
            lines.append("m.%s.SetInParent()" % f if fields[f]["msg"] else "m.%s = 'x'" % f)
        lines.append("data = m.SerializeToString()")
        prog = ast.parse("\n".join(lines)).body

        def run(cell, domains):
            pm = ProtoModel(cv.descs)
            it = Interp(repo, cell, domains, mode="route", hooks=pm.hooks())
            env = {"@module": cls.module, "@owner": None}
            conv = it.construct(cls, [], {}, env, 0, None)
            it.block(prog, env, 0)
            try:
                r = it.method_call(conv, "protobytes_is_key_distribution_only", [env["data"]], {}, env, 0, None)
                r = it.force(r)
                out = ("ret", r[1] if r[0] == "c" else None, list(pm.unmodelled))
            except _Raise as x:
                out = ("raise", x.text, list(pm.unmodelled))
            return out, it
        try:
            cells = enumerate_cells(run, {}, max_cells=16)
        except (Budget, NeedAtom, DomainGrew) as x:
            return ["not decided for a payload carrying %s: %s" % (label, x)], len(payloads)
        for _c, (kind, val, unm) in cells:
            if unm:
                return None
            if kind == "raise":
                problems.append("raises %s for a payload carrying %s" % (val[:50], label))
            elif not isinstance(val, bool) or val != want:
                problems.append("answers %r for a payload carrying %s" % (val, label))
    return sorted(set(problems)), len(payloads)
