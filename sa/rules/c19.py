"""C19 - account configuration: serialisation maps and atomic save.

C19.maps    forward/reverse property maps agree pairwise; transforms reversed in mirrored order; filters/meta agree
C19.ctor    every serialised Config attribute is a constructor parameter mapped to its own attribute; accessors
C19.ext     extension / type maps cover both formats; the profile file name is one the loader tries
C19.detect  trial-parse detection: a format tried earlier rejects the documents of the formats tried later
C19.atomic  the profile save path writes a temporary file and renames it over the target
C19.dir     the directory of the file being created is ensured (abstract path algebra)
C19.mode    text is written to text-mode files
"""
import ast

from ..consts import Evaluator, alts
from ..report import where
from ..repo import unparse, is_self_attr, params_of
from ..types import expr_types, return_types

SER = "yowsup/config/v1/serialize.py"
BSER = "yowsup/config/base/serialize.py"
CFG = "yowsup/config/v1/config.py"
BCFG = "yowsup/config/base/config.py"
MGR = "yowsup/config/manager.py"
TOOLS = "yowsup/common/tools.py"
TDIR = "yowsup/config/transforms/"


def lambda_ret(l):
    """(key expr, value expr) of `lambda key, val: (k, v)`"""
    if isinstance(l, ast.Lambda) and isinstance(l.body, ast.Tuple) and len(l.body.elts) == 2:
        return l.body.elts
    return None


def _module_function(mod, name):
    for st in mod.tree.body:
        if isinstance(st, ast.FunctionDef) and st.name == name:
            return st
    return None


def as_lambda(expr, mod, depth=0):
    """a map entry as `lambda key, val: (k, v)`: a lambda stays; a module-level function with a single `return k, v` is
    turned into one; a lambda / function whose body just calls such a function has the call replaced by its body"""
    import copy
    if isinstance(expr, ast.Name) and depth < 3:
        fn = _module_function(mod, expr.id)
        if fn is not None:
            body = [s for s in fn.body if not (isinstance(s, ast.Expr) and isinstance(s.value, ast.Constant))]
            if len(body) == 1 and isinstance(body[0], ast.Return) and body[0].value is not None and not fn.args.vararg and not fn.args.kwarg:
                lam = ast.Lambda(args=copy.deepcopy(fn.args), body=copy.deepcopy(body[0].value))
                ast.copy_location(lam, fn)
                ast.fix_missing_locations(lam)
                return as_lambda(lam, mod, depth + 1)
        return expr
    if isinstance(expr, ast.Lambda) and isinstance(expr.body, ast.Call) and isinstance(expr.body.func, ast.Name) and depth < 3 and not expr.body.keywords:
        inner = as_lambda(expr.body.func, mod, depth + 1)
        if isinstance(inner, ast.Lambda) and len(inner.args.args) == len(expr.body.args):
            m = {a.arg: v for a, v in zip(inner.args.args, expr.body.args)}

            class Sub(ast.NodeTransformer):
                def visit_Name(self, n):
                    if n.id in m and isinstance(n.ctx, ast.Load):
                        return copy.deepcopy(m[n.id])
                    return n
            lam = ast.Lambda(args=copy.deepcopy(expr.args), body=Sub().visit(copy.deepcopy(inner.body)))
            ast.copy_location(lam, expr)
            ast.fix_missing_locations(lam)
            return lam
    return expr


def map_entries(node, repo, mod):
    """{key: entry expr} of a property map written as a dict literal or as dict(<dict | dict.fromkeys(KEYS, f)>, k=v, ...)"""
    out = {}
    if isinstance(node, ast.Dict):
        for k, v in zip(node.keys, node.values):
            if not isinstance(k, ast.Constant):
                return None
            out[k.value] = v
        return out
    if isinstance(node, ast.Call) and isinstance(node.func, ast.Name) and node.func.id == "dict" and len(node.args) <= 1:
        if node.args:
            a = node.args[0]
            if isinstance(a, ast.Call) and unparse(a.func) == "dict.fromkeys" and len(a.args) == 2:
                keys = alts(Evaluator(repo, mod, None).ev(a.args[0]))
                if not keys or len(keys) != 1 or not isinstance(keys[0], (tuple, list)):
                    return None
                for k in keys[0]:
                    out[k] = a.args[1]
            else:
                base = map_entries(a, repo, mod)
                if base is None:
                    return None
                out.update(base)
        for kw in node.keywords:
            if kw.arg is None:
                return None
            out[kw.arg] = kw.value
        return out
    return None


def calls_named(e, name):
    return [c for c in ast.walk(e) if isinstance(c, ast.Call) and (
        (isinstance(c.func, ast.Attribute) and c.func.attr == name) or (isinstance(c.func, ast.Name) and c.func.id == name))]


def rule_pipeline(ctx):
    """the serialisation pipeline, abstractly executed end to end: a Config built by the real constructor (plain fields
    constants, the fields the property map encodes opaque objects) goes through ConfigSerialize(Config).serialize and the
    resulting dict through deserialize; every attribute of the configuration that comes back equals the original -
    modulo the laws  b64decode(b64encode(x).decode()) = x,  PublicKey(k.data) = k,
    KeyPair.from_bytes(p.private.data + p.public.data) = p  - the dict carries the version as a meta property and only text
    for the encoded fields; a configuration with nothing but the phone set comes back with everything else None.
    -> True when every scenario was executed and clean"""
    from ..absint import Interp, _Raise, NeedAtom, Budget, DomainGrew, C_NONE, enumerate_cells, show
    repo = ctx.repo
    scls = repo.cls(SER, "ConfigSerialize")
    ccls = repo.cls("yowsup/config/v1/config.py", "Config")
    k, init = repo.find_method(ccls, "__init__")
    w = where(SER, "ConfigSerialize.__init__", repo.method(SER, "ConfigSerialize", "__init__").lineno)
    params = [a.arg for a in init.args.args][1:]

    def strip(t):
        """simplify with b64decode(b64encode(x)[.decode()]) = x"""
        if not isinstance(t, tuple):
            return t
        if t[0] in ("fn", "ext") and t[1].strip(".()").split(".")[-1] in ("b64decode", "urlsafe_b64decode", "standard_b64decode", "decodebytes"):
            args = [strip(x) for x in t[2] if not (isinstance(x, tuple) and x[0] == "ext" and x[1].split(".")[-1].split(" ")[-1] == "base64")]
            if len(args) == 1:
                inner = args[0]
                while isinstance(inner, tuple) and inner[0] in ("fn", "ext") and inner[1].strip(".()") in ("decode", "encode", "str") and inner[2]:
                    inner = [y for y in inner[2] if not (isinstance(y, tuple) and y[0] == "c")][0] if [y for y in inner[2] if not (isinstance(y, tuple) and y[0] == "c")] else inner
                    if not isinstance(inner, tuple):
                        break
                if isinstance(inner, tuple) and inner[0] in ("fn", "ext") and inner[1].strip(".()").split(".")[-1] in ("b64encode", "urlsafe_b64encode", "standard_b64encode", "encodebytes"):
                    ia = [x for x in inner[2] if not (isinstance(x, tuple) and x[0] == "ext" and x[1].split(".")[-1].split(" ")[-1] == "base64")]
                    if len(ia) == 1:
                        return strip(ia[0])
        if t[0] in ("fn", "ext"):
            return (t[0], t[1], [strip(x) for x in t[2]])
        if t[0] == "list":
            return ("list", [strip(x) for x in t[1]]) + tuple(t[2:])
        return t

    def attr(v, *names):
        for n in names:
            v = ("fn", "." + n, [v])
        return v

    def same(orig, back):
        b = strip(back)
        if b == orig:
            return True
        # PublicKey(orig.data)
        if isinstance(b, tuple) and b[0] == "ext" and b[1].rstrip("()").split(".")[-1] == "PublicKey" and b[2] and b[2][-1] == attr(orig, "data") and len([x for x in b[2] if x != attr(orig, "data")]) == 0:
            return True
        # KeyPair.from_bytes(orig.private.data + orig.public.data)
        if isinstance(b, tuple) and b[0] == "fn" and b[1] == "from_bytes":
            payload = [x for x in b[2] if not (isinstance(x, tuple) and x[0] == "ext" and x[1].split(".")[-1] == "KeyPair")]
            if payload == [("fn", "Add", [attr(orig, "private", "data"), attr(orig, "public", "data")])]:
                return True
        return False

    def run_scenario(only_phone):
        def run(cell, domains):
            it = Interp(repo, cell, domains)
            it.max_steps = 400000
            env = {"@module": scls.module, "@owner": None}
            ser = it.construct(scls, [("cls", ccls)], {}, env, 0, None)
            special = set()
            tr = ser[1].fields.get("_transforms")
            for t in (tr[1] if tr is not None and tr[0] == "list" else []):
                tm = t[1].fields.get("_transform_map") if t[0] == "obj" else None
                if tm is not None and tm[0] == "dict":
                    special |= {k_ for k_ in tm[1] if isinstance(k_, str)}
            given = {p: (("ext", "v:" + p, []) if p in special else ("c", "%s-value" % p)) for p in params if (not only_phone or p == "phone")}
            cfg = it.construct(ccls, [], dict(given), env, 0, None)
            before = {f: v for f, v in cfg[1].fields.items() if not f.startswith("@")}
            D = it.method_call(ser, "serialize", [cfg], {}, env, 0, None)
            cfg1 = it.method_call(ser, "deserialize", [D], {}, env, 0, None)
            return {"before": before, "D": D, "after": cfg1, "special": special}, it
        return enumerate_cells(run, {}, max_cells=64)
    clean = True
    for only_phone in (False, True):
        label = "only the phone set" if only_phone else "every field set"
        try:
            cells = run_scenario(only_phone)
        except _Raise as r:
            ctx.violate("C19.maps", w, "round trip of a configuration with %s" % label, "serialising and loading a configuration with %s raises %s" % (label, r.text[:80]))
            clean = False
            continue
        except (Budget, NeedAtom, DomainGrew) as x:
            ctx.undecided("C19.maps", w, "round trip of a configuration with %s" % label, "could not be executed: %s" % (x,))
            return False
        for cell, r in cells:
            D, after, before = r["D"], r["after"], r["before"]
            if D[0] != "dict" or (len(D) > 2 and D[2]) or after[0] != "obj":
                ctx.undecided("C19.maps", w, "round trip of a configuration with %s" % label, "the serialised form is not a closed dict / the loaded value is not an object")
                return False
            keys = sorted(str(k_) for k_ in D[1])
            metas = [k_ for k_ in D[1] if isinstance(k_, str) and k_.startswith("__")]
            ctx.check("C19.maps", len(metas) == 1 and all(isinstance(k_, str) for k_ in D[1]), w, "serialised dict (%s): keys %s" % (label, keys[:4]),
                      "the serialised dict must have plain string keys and carry the version as its one meta property (keys: %s)" % keys, "string keys, one meta property")
            nones = [k_ for k_, v_ in D[1].items() if v_ == C_NONE]
            ctx.check("C19.maps", not nones, w, "unset fields are not serialised (%s)" % label, "fields %s are written with the value None" % nones, "no None values in the serialised dict")
            for k_, v_ in sorted(D[1].items(), key=str):
                if k_ in r["special"]:
                    is_text = isinstance(v_, tuple) and v_[0] in ("fn", "ext") and v_[1].strip(".()") in ("decode", "str", "hex")
                    clean &= bool(ctx.check("C19.maps", is_text, w, "encoded field %s is text" % k_, "field %r is serialised as %s: not text (json.dumps / the key=value writer cannot store bytes)" % (k_, show(v_)[:50]), "base64 text").verdict == "HOLDS")
            for f, v0 in sorted(before.items()):
                v1 = after[1].fields.get(f, ("absent",))
                okf = same(v0, v1)
                inst = ctx.check("C19.maps", okf, w, "attribute %s (%s)" % (f.lstrip("_"), label),
                                 "attribute %r was %s and is %s after saving and loading" % (f.lstrip("_"), show(v0)[:40], show(strip(v1))[:80]), "comes back equal")
                clean &= okf
    return clean


def rule_maps(ctx):
    repo = ctx.repo
    cls = repo.cls(SER, "ConfigSerialize")
    init = repo.method(SER, "ConfigSerialize", "__init__")
    w = where(SER, "ConfigSerialize.__init__", init.lineno)
    transforms = None
    for c in ast.walk(init):
        if isinstance(c, ast.Call):
            for k in c.keywords:
                if k.arg == "transforms" and isinstance(k.value, ast.Tuple):
                    transforms = k.value.elts
    if transforms is None:
        ctx.undecided("C19.maps", w, init, "transforms=(...) tuple not found")
        return
    names = [unparse(t.func) for t in transforms if isinstance(t, ast.Call)]
    ctx.units["C19.transforms"] = names
    props = [t for t in transforms if isinstance(t, ast.Call) and unparse(t.func) == "PropsTransform"]
    if len(props) != 1:
        ctx.undecided("C19.maps", w, init, "expected one PropsTransform(...)")
        return
    kw = {k.arg: k.value for k in props[0].keywords}
    fm, rm = kw.get("transform_map"), kw.get("reverse_map")
    f = map_entries(fm, repo, cls.module) if fm is not None else None
    r = map_entries(rm, repo, cls.module) if rm is not None else None
    if f is None or r is None:
        ctx.undecided("C19.maps", w, props[0], "transform_map / reverse_map are not dict literals (or dict(...) over constant keys)")
        return
    f = {k: as_lambda(v, cls.module) for k, v in f.items()}
    r = {k: as_lambda(v, cls.module) for k, v in r.items()}
    ctx.check("C19.maps", set(f) == set(r), w, "map key sets", "forward map has %s, reverse map has %s: a field is encoded but never decoded (or vice versa)" % (sorted(set(f) - set(r)), sorted(set(r) - set(f))), "same %d keys" % len(f))
    for key in sorted(set(f) & set(r)):
        fr, rr = lambda_ret(f[key]), lambda_ret(r[key])
        wk = where(SER, "ConfigSerialize.__init__", f[key].lineno)
        if fr is None or rr is None:
            ctx.undecided("C19.maps", wk, "pair " + key, "map entries are not `lambda key, val: (key, expr)`")
            continue
        fk, fv = fr
        rk, rv = rr
        kp_f, kp_r = f[key].args.args[0].arg, r[key].args.args[0].arg
        vp_f, vp_r = f[key].args.args[1].arg, r[key].args.args[1].arg
        same_key = isinstance(fk, ast.Name) and fk.id == kp_f and isinstance(rk, ast.Name) and rk.id == kp_r
        enc = calls_named(fv, "b64encode")
        dec = calls_named(rv, "b64decode")
        text = bool(calls_named(fv, "decode"))
        dec_of_val = bool(dec) and isinstance(dec[0].args[0], ast.Name) and dec[0].args[0].id == vp_r
        enc_of_val = bool(enc) and any(isinstance(n, ast.Name) and n.id == vp_f for n in ast.walk(enc[0].args[0]))
        ok = same_key and len(enc) == 1 and len(dec) == 1 and text and dec_of_val and enc_of_val
        ctx.check("C19.maps", ok, wk, "pair %s: %s <-> %s" % (key, unparse(fv), unparse(rv)),
                  "field %r is not an encode/decode pair (forward must base64-encode the value to text under the same key, reverse must base64-decode it)" % key, "base64 text <-> bytes")
        # structured values: what the forward side takes apart, the reverse side must rebuild
        parts = sorted({n.attr for n in ast.walk(enc[0].args[0]) if isinstance(n, ast.Attribute)}) if enc else []
        rebuilt = not (isinstance(rv, ast.Call) and rv is dec[0]) if dec else False
        if ok:
            ctx.check("C19.maps", bool(parts) == rebuilt, wk, "pair %s structure" % key,
                      "forward side serialises %s of an object but the reverse side %s an object" % (parts or "the raw value", "does not rebuild" if parts else "wraps the bytes in"), "raw<->raw or object<->rebuilt object")
    # serialize applies transforms in order, deserialize in reverse order calling reverse
    ser = repo.method(BSER, "ConfigSerialize", "serialize")
    de = repo.method(BSER, "ConfigSerialize", "deserialize")
    fwd = [n for n in ast.walk(ser) if isinstance(n, ast.For)]
    rev = [n for n in ast.walk(de) if isinstance(n, ast.For)]
    okf = len(fwd) == 1 and unparse(fwd[0].iter) == "self._transforms" and bool(calls_named(fwd[0], "transform"))
    okr = len(rev) == 1 and unparse(rev[0].iter).replace(" ", "") in ("self._transforms[::-1]", "reversed(self._transforms)") and bool(calls_named(rev[0], "reverse"))
    ctx.check("C19.maps", okf and okr, where(BSER, "ConfigSerialize.deserialize", de.lineno), "pipeline order",
              "serialize must apply the transforms in order and deserialize must apply their reverse in the opposite order", "forward in order, reverse in mirrored order")
    # filter: drops None forward; reverse drops exactly the meta props
    filt = [t for t in transforms if isinstance(t, ast.Call) and unparse(t.func) == "FilterTransform"]
    meta = [t for t in transforms if isinstance(t, ast.Call) and unparse(t.func) == "MetaPropsTransform"]
    if filt and meta:
        fk = {k.arg: k.value for k in filt[0].keywords}
        mk = {k.arg: k.value for k in meta[0].keywords}
        metas = [e.value for e in mk["meta_props"].elts] if isinstance(mk.get("meta_props"), ast.Tuple) else None
        tf, rf = fk.get("transform_filter"), fk.get("reverse_filter")
        okn = isinstance(tf, ast.Lambda) and unparse(tf.body).replace(" ", "") == tf.args.args[1].arg + "isnotNone"
        dropped = sorted({c.value for c in ast.walk(rf) if isinstance(c, ast.Constant) and isinstance(c.value, str)}) if rf is not None else []
        okm = metas is not None and dropped == sorted(metas) and isinstance(rf, ast.Lambda) and isinstance(rf.body, ast.Compare) and isinstance(rf.body.ops[0], (ast.NotEq, ast.NotIn))
        ctx.check("C19.maps", okn, w, "forward filter " + (unparse(tf) if tf is not None else "<none>"), "unset (None) fields must be filtered out when serialising", "None values are not serialised")
        ctx.check("C19.maps", okm, w, "reverse filter drops %s, meta props %s" % (dropped, metas),
                  "the reverse filter must drop exactly the meta properties (%s) before the constructor is called" % metas, "reverse filter drops exactly the meta properties")
        # meta must be applied after the underscore strip and be reversed before it
        order = [unparse(t.func) for t in transforms if isinstance(t, ast.Call)]
        oko = order.index("ConfigDictTransform") == 0 and order.index("MapTransform") < order.index("PropsTransform") and order.index("MapTransform") < order.index("MetaPropsTransform") \
            and order.index("FilterTransform") < order.index("MetaPropsTransform")
        ctx.check("C19.maps", oko, w, "transform order %s" % order, "object->dict first, underscore strip before the per-property and meta maps", "pipeline stages in a consistent order")
    # MetaPropsTransform: forward prop -> formatted, reverse formatted -> prop
    mi = repo.method(TDIR + "meta.py", "MetaPropsTransform", "__init__")
    fwdmap = revmap = False
    for n in ast.walk(mi):
        if isinstance(n, ast.Assign) and isinstance(n.targets[0], ast.Subscript) and isinstance(n.value, ast.Lambda):
            tgt, idx = unparse(n.targets[0].value), unparse(n.targets[0].slice)
            ret = lambda_ret(n.value)
            if ret is None:
                continue
            if tgt == "transform_map" and idx == "prop" and unparse(ret[0]) == "formatted":
                fwdmap = True
            if tgt == "reverse_map" and idx == "formatted" and unparse(ret[0]) == "prop":
                revmap = True
    ctx.check("C19.maps", fwdmap and revmap, where(TDIR + "meta.py", "MetaPropsTransform.__init__", mi.lineno), "meta prop <-> formatted name",
              "meta properties must be renamed to their formatted name forward and back to the plain name in reverse", "prop -> __prop__ -> prop")
    # strip underscore forward; constructor takes the stripped names
    mt = [t for t in transforms if isinstance(t, ast.Call) and unparse(t.func) == "MapTransform"]
    if mt:
        kwm = {k.arg: k.value for k in mt[0].keywords}
        tm = kwm.get("transform_map")
        ret = lambda_ret(tm) if tm is not None else None
        ok = ret is not None and unparse(ret[0]) == tm.args.args[0].arg + "[1:]" and unparse(ret[1]) == tm.args.args[1].arg and "reverse_map" not in kwm
        ctx.check("C19.maps", ok, w, "underscore strip " + (unparse(tm) if tm is not None else ""), "attribute names must lose exactly their leading underscore (the constructor takes the plain names)", "key[1:] forward, identity in reverse")


def rule_ctor(ctx):
    repo = ctx.repo
    cls = repo.cls(CFG, "Config")
    init = repo.method(CFG, "Config", "__init__")
    ps = params_of(init)
    assigned = {}
    for s in init.body:
        if isinstance(s, ast.Assign) and len(s.targets) == 1 and is_self_attr(s.targets[0]):
            assigned[s.targets[0].attr] = s
    for attr, s in sorted(assigned.items()):
        w = where(CFG, "Config.__init__", s.lineno)
        names = {n.id for n in ast.walk(s.value) if isinstance(n, ast.Name)} - {"str", "int", "None", "bytes"}
        ok = attr.startswith("_") and attr[1:] in ps and names == {attr[1:]}
        ctx.check("C19.ctor", ok, w, s, "attribute %s is serialised under the name %r, which must be a constructor parameter feeding exactly this attribute (it is fed by %s)" % (attr, attr[1:], sorted(names)), "%s <- parameter %s" % (attr, attr[1:]))
    for p in ps:
        ctx.check("C19.ctor", "_" + p in assigned, where(CFG, "Config.__init__", init.lineno), "parameter " + p, "constructor parameter %r is not stored: the field is lost on load" % p, "stored")
    # accessors
    for fn in cls.all_defs:
        name = fn.name
        decs = [unparse(d) for d in fn.decorator_list]
        w = where(CFG, "Config." + name, fn.lineno)
        if "property" in decs:
            rets = [n for n in ast.walk(fn) if isinstance(n, ast.Return)]
            ok = len(rets) == 1 and unparse(rets[0].value) == "self._" + name
            ctx.check("C19.ctor", ok, w, "getter " + name, "getter `%s` must return self._%s" % (name, name), "returns self._%s" % name)
        elif any(d.endswith(".setter") for d in decs):
            tg = [unparse(t) for n in ast.walk(fn) if isinstance(n, ast.Assign) for t in n.targets if is_self_attr(t)]
            ctx.check("C19.ctor", tg == ["self._" + name], w, "setter " + name, "setter `%s` must assign self._%s (assigns %s)" % (name, name, tg), "assigns self._%s" % name)
    # every instance attribute ANY method of the Config hierarchy sets is exported by vars() and fed back to the constructor
    # by keyword: an attribute that is not a constructor parameter (a cache, a dirty flag) becomes an unknown key on load
    allowed = {"_" + p for p in ps} | {"_version"}
    for k in repo.mro(cls):
        for name, fn in sorted(k.methods.items()):
            for n in ast.walk(fn):
                tg = n.targets if isinstance(n, ast.Assign) else ([n.target] if isinstance(n, (ast.AugAssign, ast.AnnAssign)) else [])
                for t in tg:
                    if is_self_attr(t) and t.attr not in allowed:
                        ctx.violate("C19.ctor", where(k.relpath, "%s.%s" % (k.name, name), n.lineno), n,
                                    "the instance attribute %s is not a constructor parameter: once it holds a value it is written to the config file as the key %r and every later load fails with an unexpected keyword (or it silently changes the file)" % (t.attr, t.attr.lstrip("_")))
    # object -> dict uses vars(); dict -> object uses cls(**data)
    cd = repo.cls(TDIR + "config_dict.py", "ConfigDictTransform")
    t, r = cd.methods.get("transform"), cd.methods.get("reverse")
    okt = t is not None and any(isinstance(n, ast.Call) and unparse(n.func) == "vars" for n in ast.walk(t)) and bool(calls_named(t, "getattr"))
    okr = r is not None and any(isinstance(n, ast.Call) and any(k.arg is None for k in n.keywords) and unparse(n.func) == "self._cls" for n in ast.walk(r))
    ctx.check("C19.ctor", okt and okr, where(TDIR + "config_dict.py", "ConfigDictTransform", None), "object <-> dict", "every instance attribute must be exported and the dict must be fed to the constructor by keyword", "vars(obj) forward, cls(**data) in reverse")
    # base class stores the version under the name the meta transform expects
    binit = repo.method(BCFG, "Config", "__init__")
    ok = any(isinstance(n, ast.Assign) and unparse(n.targets[0]) == "self._version" and unparse(n.value) == params_of(binit)[0] for n in ast.walk(binit))
    ctx.check("C19.ctor", ok, where(BCFG, "Config.__init__", binit.lineno), "version attribute", "the format version must be stored as _version (serialised as the meta property `version`)", "_version stored")


def rule_ext(ctx):
    repo = ctx.repo
    cls = repo.cls(MGR, "ConfigManager")
    ev = Evaluator(repo, cls.module, cls)

    def cc(name):
        a = alts(ev.class_const(cls, name))
        return a[0] if a and len(a) == 1 else None
    mext, types_, tnames = cc("MAP_EXT"), None, cc("TYPE_NAMES")
    k, te = repo.class_const(cls, "TYPES")
    tkeys = []
    tvals = []
    if isinstance(te, ast.Dict):
        for kk, vv in zip(te.keys, te.values):
            a = alts(ev.sub(class_scope=k).ev(kk))
            tkeys.append(a[0] if a else None)
            tvals.append(repo.resolve_expr_class(cls.module, vv))
    w = where(MGR, "ConfigManager", None)
    if mext is None or tnames is None or not tkeys or None in tkeys:
        ctx.undecided("C19.ext", w, "MAP_EXT/TYPES/TYPE_NAMES", "format tables are not constant dicts")
        return
    formats = {cc("TYPE_KEYVAL"), cc("TYPE_JSON")}
    ctx.check("C19.ext", set(mext.values()) == formats == set(tkeys) == set(tnames), w, "format tables",
              "extension map covers %s, transform map %s, names %s; all must cover both formats %s" % (sorted(mext.values()), sorted(tkeys), sorted(tnames), sorted(formats)), "both formats in every table")
    ctx.check("C19.ext", len(set(tkeys)) == len(tkeys) and all(v is not None for v in tvals) and len({v.qname for v in tvals}) == len(tvals), w, "distinct transform per format",
              "two formats share a transform class or a class is unknown", "one transform class per format")
    for fmt, c in zip(tkeys, tvals):
        if c is None:
            continue
        ok = "transform" in c.methods and "reverse" in c.methods
        ctx.check("C19.ext", ok, where(c.relpath, c.name, None), "%s implements transform/reverse" % c.name, "format class lacks transform or reverse", "both directions implemented")
    # the file name the profile save writes is one the loader tries, and its extension maps to save's default format
    st = repo.cls(TOOLS, "StorageTools")
    sev = Evaluator(repo, st.module, st)
    k, e = repo.class_const(st, "NAME_CONFIG")
    a = alts(sev.ev(e)) if e is not None else None
    name_cfg = a[0] if a else None
    base = cc("NAME_FILE_CONFIG")
    tried = {base + "." + x for x in mext} if base else set()
    save = repo.method(MGR, "ConfigManager", "save")
    dflt = None
    ps = [a_.arg for a_ in save.args.args]
    if "serialize_type" in ps:
        d = save.args.defaults[ps.index("serialize_type") - (len(ps) - len(save.args.defaults))]
        a = alts(ev.sub(class_scope=cls).ev(d))
        dflt = a[0] if a else None
    ext = name_cfg.rsplit(".", 1)[1] if name_cfg and "." in name_cfg else None
    ctx.check("C19.ext", name_cfg in tried and mext.get(ext) == dflt, where(TOOLS, "StorageTools", None), "profile config file %r" % name_cfg,
              "the profile config is written as %r in format %s, but the loader tries %s and reads .%s as format %s" % (name_cfg, dflt, sorted(tried), ext, mext.get(ext)), "written where and as the loader expects")
    # load tries each extension in the profile directory; guess_type falls back to trial parsing: both decided by
    # executing them over a scripted file system; the reading of their shape below is the fallback
    load = repo.method(MGR, "ConfigManager", "load")
    gt = repo.method(MGR, "ConfigManager", "guess_type")
    ex = load_scenarios(repo, cls, mext, base)
    if ex is not None:
        bad_load, bad_guess, n_load, n_guess = ex
        ctx.check("C19.ext", not bad_load, where(MGR, "ConfigManager.load", load.lineno), "load by path, then by profile name over every extension",
                  "load must try the path and then every known extension in the profile directory: " + "; ".join(bad_load[:2]), "%d scripted file systems: the path first, then <profile dir>/%s.<each extension>, else None" % (n_load, base))
        ctx.check("C19.ext", not bad_guess, where(MGR, "ConfigManager.guess_type", gt.lineno), "format detection by extension, else by trial parse",
                  "a file with a known extension must be read as that extension's format: " + "; ".join(bad_guess[:2]), "%d file names: the extension decides (any letter case); none: trial parse (C19.detect)" % n_guess)
        return
    ok = any(isinstance(n, ast.For) and unparse(n.iter) == "self.MAP_EXT" for n in ast.walk(load)) and bool(calls_named(load, "getStorageForProfile")) and bool(calls_named(load, "_load_path"))
    ctx.check("C19.ext", ok, where(MGR, "ConfigManager.load", load.lineno), "load by path, then by profile name over every extension", "load must try the path and then every known extension in the profile directory", "three load paths present")
    gt = repo.method(MGR, "ConfigManager", "guess_type")
    ok = any(isinstance(n, ast.For) and "TYPES" in unparse(n.iter) for n in ast.walk(gt)) and bool(calls_named(gt, "splitext"))
    ctx.check("C19.ext", ok, where(MGR, "ConfigManager.guess_type", gt.lineno), "format detection by extension, else by trial parse", "files without a known extension must be detected by trial parsing with every format", "extension, then trial parse")


def load_scenarios(repo, cls, mext, base):
    """ConfigManager.load and guess_type executed over scripted file systems (os.path.isfile / join / splitext computed,
    _load_path answering with a token naming the file it was asked to load, the profile directory fixed)
    -> (problems of load, problems of guess_type, scenarios, file names) or None when they cannot be followed"""
    from ..absint import Interp, _Raise, NeedAtom, Budget, DomainGrew, C_NONE
    import posixpath
    if not base or not mext:
        return None
    PDIR = "/store/alice"
    exts = [x for x in mext if x]

    def make(existing, guess=False):
        def extcall(itp, label, args, kwargs, env, depth, e):
            leaf = label.strip(".()").split(".")[-1]
            cs = [a for a in args if a[0] == "c" and isinstance(a[1], str)]
            if leaf == "isfile" and len(cs) == 1 == len(args):
                return ("c", cs[0][1] in existing)
            if leaf == "join" and len(cs) == len(args) and args and e is not None and "path" in unparse(e.func):
                return ("c", posixpath.join(*[a[1] for a in cs]))
            if leaf == "splitext" and len(cs) == 1 == len(args):
                return ("c", tuple(posixpath.splitext(cs[0][1])))
            return None

        def load_path(itp, fn, owner, self_val, a, k):
            p_ = a[0] if a else None
            if p_ is None or p_[0] != "c":
                raise _Raise(("ext", "Unfollowed", []), "path not constant")
            return ("ext", "CONFIG:" + p_[1], []) if p_[1] in existing else C_NONE

        def storage(itp, fn, owner, self_val, a, k):
            return ("c", PDIR)
        hooks = {"extcall": extcall, "fn:getStorageForProfile": storage, "builtin:open": lambda *a_: ("ext", "file", [])}
        if not guess:
            hooks["fn:_load_path"] = load_path
        it = Interp(repo, {}, {}, hooks=hooks)
        o = it.construct(cls, [], {}, {"@module": cls.module, "@owner": None}, 0, None)
        return it, o

    def call(existing, name, args, kwargs=None, guess=False):
        it, o = make(existing, guess)
        try:
            v = it.method_call(o, name, [("c", a) for a in args], {k_: ("c", v_) for k_, v_ in (kwargs or {}).items()}, {"@module": cls.module, "@owner": cls}, 0, None)
        except _Raise as r:
            return ("raise", r.text)
        v = it.force(v)
        if v[0] == "ext" and v[1].startswith("CONFIG:"):
            return ("config", v[1][7:])
        if v[0] == "c":
            return ("value", v[1])
        return ("other", v)
    bad_load, bad_guess = [], []
    try:
        scen = []
        prof = lambda ext: posixpath.join(PDIR, base + "." + ext)
        scen.append(("a path to a file", {"/tmp/my.json"}, ["/tmp/my.json"], {}, ("config", "/tmp/my.json")))
        for ext in exts:
            scen.append(("profile holding %s.%s" % (base, ext), {prof(ext)}, ["alice"], {}, ("config", prof(ext))))
            scen.append(("profile holding %s.%s, profile only" % (base, ext), {prof(ext)}, ["alice"], {"profile_only": True}, ("config", prof(ext))))
        scen.append(("neither a file nor a profile with a config", set(), ["alice"], {}, ("value", None)))
        scen.append(("a file named like the profile, profile only", {"alice", prof(exts[0])}, ["alice"], {"profile_only": True}, ("config", prof(exts[0]))))
        scen.append(("a file named like the profile", {"alice", prof(exts[0])}, ["alice"], {}, ("config", "alice")))
        for label, existing, args, kw, want in scen:
            got = call(existing, "load", args, kw)
            if got[0] == "other" or (got[0] == "raise" and "Unfollowed" in got[1]):
                return None
            if got != want:
                bad_load.append("%s: load(%s) gives %s, not %s" % (label, ", ".join(map(repr, args + list(kw.items()))), got, want))
        names = []
        for ext, t in mext.items():
            if ext:
                names += [("/d/%s.%s" % (base, ext), t), ("/d/x.%s" % ext.upper(), t), ("/d/a.b.%s" % ext, t)]
        for path, want in names:
            got = call({path}, "guess_type", [path], guess=True)
            if got[0] == "other":
                return None
            if got != ("value", want):
                bad_guess.append("guess_type(%r) gives %s, the extension means %r" % (path, got, want))
    except (NeedAtom, Budget, DomainGrew):
        return None
    return bad_load, bad_guess, len(scen), len(names)


def rule_detect(ctx):
    """format auto-detection of extension-less files is a trial parse in the order of TYPES: every format tried before
    another one must REJECT that other format's documents.  For the key=value parser (tried before JSON) that means: a
    non-comment line without '=' raises - every path through the per-line body reads the second half of the split."""
    from ..cfg import CFG as _CFG, edge_region
    repo = ctx.repo
    cls = repo.cls(MGR, "ConfigManager")
    k, te = repo.class_const(cls, "TYPES")
    order = [repo.resolve_expr_class(cls.module, v) for v in te.values] if isinstance(te, ast.Dict) else []
    w = where(MGR, "ConfigManager.guess_type", None)
    if not order or None in order:
        ctx.undecided("C19.detect", w, "TYPES", "trial-parse order not a literal dict of transform classes")
        return
    gt = repo.method(MGR, "ConfigManager", "guess_type")
    # the trial loop, abstractly executed on an extension-less path with each format's reverse() scripted: raises /
    # returns nothing / returns a document.  The answer must be the first format (in TYPES order) that returns a document;
    # one that raises or returns nothing is skipped; when none accepts, no exception escapes
    from ..absint import Interp, _Raise, NeedAtom, Budget, DomainGrew, C_NONE, enumerate_cells
    import itertools
    keys = []
    ev_ = Evaluator(repo, cls.module, cls, class_scope=cls)
    for k_ in te.keys:
        a_ = alts(ev_.ev(k_))
        keys.append(a_[0] if a_ and len(a_) == 1 else None)
    bad, n_sc = [], 0
    if None in keys:
        ctx.undecided("C19.detect", where(MGR, "ConfigManager.guess_type", gt.lineno), "trial parse", "keys of TYPES are not constants")
    else:
        for script in itertools.product(("raise", "empty", "doc"), repeat=len(order)):
            want = next((keys[i] for i, s_ in enumerate(script) if s_ == "doc"), None)

            def run(cell, domains, script=script):
                def reverse(itp, recv, a, k, env, d, e):
                    if recv[0] == "obj" and recv[1].cls in order:
                        s_ = script[order.index(recv[1].cls)]
                        if s_ == "raise":
                            raise _Raise(("ext", "ValueError", []), "ValueError: not this format")
                        return ("dict", {}) if s_ == "empty" else ("dict", {"phone": ("c", "1")})
                    return None

                def extcall(itp, label, args, kwargs, env, depth, e):
                    if label.strip(".()").split(".")[-1] == "splitext":
                        return ("list", [("c", "/some/dir/config"), ("c", "")], False, "tuple")
                    return None

                def open_(itp, e, args, kwargs, env, depth):
                    return ("ext", "file", [])
                it = Interp(repo, cell, domains, hooks={"method:reverse": reverse, "extcall": extcall, "builtin:open": open_})
                o = it.construct(cls, [], {}, {"@module": cls.module, "@owner": None}, 0, None)
                try:
                    r = it.call_function(gt, cls, o, [("c", "/some/dir/config")], {}, depth=0)
                    return ("ret", r), it
                except _Raise as x:
                    return ("raise", x.text), it
            try:
                cells = enumerate_cells(run, {}, max_cells=32)
            except (Budget, NeedAtom, DomainGrew) as x:
                bad.append("scenario %s could not be executed (%s)" % (list(script), x))
                continue
            n_sc += 1
            for cell, r in cells:
                got = r[1][1] if r[0] == "ret" and r[1][0] == "c" else ("raises " + str(r[1])[:40] if r[0] == "raise" else "?")
                if got != want:
                    bad.append("when the formats answer %s the detected type is %s, not %s" % (dict(zip([c_.name for c_ in order], script)), got, want))
        ctx.check("C19.detect", not bad, where(MGR, "ConfigManager.guess_type", gt.lineno), "trial parse: the first format that returns a document wins; raising / empty ones are skipped",
                  "; ".join(bad[:2]) + (" (+%d more)" % (len(bad) - 2) if len(bad) > 2 else ""), "%d scripted scenarios of the trial loop" % n_sc)
    STRICT_EXTERNAL = {"DictJsonTransform": "json.loads"}      # json.loads raises on anything that is not a JSON document
    for i, c in enumerate(order[:-1]):
        later = [x.name for x in order[i + 1:]]
        rv = c.methods.get("reverse")
        wc = where(c.relpath, c.name + ".reverse", getattr(rv, "lineno", None))
        if rv is None:
            ctx.undecided("C19.detect", wc, c.name, "no reverse()")
            continue
        if c.name in STRICT_EXTERNAL:
            okx = bool(calls_named(rv, STRICT_EXTERNAL[c.name].split(".")[-1]))
            ctx.check("C19.detect", okx, wc, "%s tried before %s" % (c.name, later), "the parser no longer goes through %s" % STRICT_EXTERNAL[c.name], "strict external parser")
            continue
        # key=value style, decided by execution: the parser run on documents of the formats tried after it (as their own
        # transform() writes them, a base64 value ending in '=' included) must raise; on its own documents it returns them
        ex = strict_parser_exec(repo, c, [x for x in order[i + 1:]])
        if ex is not None:
            ctx.check("C19.detect", not ex, wc, "%s tried before %s" % (c.name, later),
                      "; ".join(ex[:2]) + " - an extension-less file in that format is detected as the wrong type", "documents of the later formats are rejected, its own are read back (executed)")
            continue
        # fallback, the reading of the shape: per-line loop; `parts = <line>.split('=', 1)`; every path of the body for a significant line reads parts[1]
        g = _CFG(rv)
        splits = [n for n in g.live if n.kind == "stmt" and isinstance(n.stmt, ast.Assign) and isinstance(n.stmt.targets[0], ast.Name)
                  and any(isinstance(x, ast.Call) and isinstance(x.func, ast.Attribute) and x.func.attr in ("split", "partition") and x.args and isinstance(x.args[0], ast.Constant) and x.args[0].value == "=" for x in ast.walk(n.stmt.value))]
        if len(splits) != 1:
            ctx.undecided("C19.detect", wc, "%s tried before %s" % (c.name, later), "could not find the single `parts = line.split('=', 1)` statement")
            continue
        parts = splits[0].stmt.targets[0].id
        reads = [n for n in g.live if n.stmt is not None and n.kind == "stmt" and any(isinstance(x, ast.Subscript) and isinstance(x.value, ast.Name) and x.value.id == parts
                                                                                      and isinstance(x.slice, ast.Constant) and x.slice.value == 1 for x in ast.walk(n.stmt))]
        loop_nodes = [n for n in g.live if n.kind == "loop"]
        escape = g.path(splits[0], lambda x: x in loop_nodes or x is g.exit, avoid=reads, edge_ok=lambda a, b, kk: kk != "exc") if reads else [splits[0]]
        ctx.check("C19.detect", escape is None, wc, "%s tried before %s" % (c.name, later),
                  "a line without '=' is accepted silently: a %s document (whose lines mostly have none, but whose base64 values end in '=') parses to a non-empty dict and an extension-less file in that format is detected as the wrong type" % "/".join(later),
                  "a significant line without '=' raises (every path reads the value half of the split)")


def strict_parser_exec(repo, c, later):
    """c().reverse(text) executed on constant documents: the text every later format's own transform() produces for a
    small configuration (with a value that ends in '=', as base64 does) must make it raise; the text its own transform()
    produces must come back as that configuration; comment and blank lines are skipped.
    -> list of problems, or None when the executions cannot be followed"""
    from ..absint import Interp, _Raise, NeedAtom, Budget, DomainGrew, C_NONE, show as _show
    import json as _json
    conf = {"cc": "49", "id": "QUJDRA==", "phone": "4915112345678"}

    def ext(itp, recv, args, kwargs, env, depth, e):
        if args and args[0][0] in ("dict", "c"):
            d_ = {k_: (v_[1] if isinstance(v_, tuple) else v_) for k_, v_ in (args[0][1].items())} if args[0][0] == "dict" else args[0][1]
            kw = {k_: v_[1] for k_, v_ in kwargs.items() if v_[0] == "c"}
            if isinstance(kw.get("separators"), list):
                kw["separators"] = tuple(kw["separators"])
            try:
                return ("c", _json.dumps(d_, **kw))
            except TypeError:
                return None
        return None
    it = Interp(repo, {}, {}, hooks={"ext:*.dumps": ext})
    it.loop_unroll = 64
    env = {"@module": c.module, "@owner": None}
    problems = []
    try:
        me = it.construct(c, [], {}, env, 0, None)
        docs = []
        for other in later:
            o = it.construct(other, [], {}, {"@module": other.module, "@owner": None}, 0, None)
            t = it.force(it.method_call(o, "transform", [("dict", {k_: ("c", v_) for k_, v_ in conf.items()})], {}, {"@module": other.module, "@owner": other}, 0, None))
            if t[0] != "c" or not isinstance(t[1], str):
                return None
            docs.append((other.name, t[1]))
        for name, text in docs:
            try:
                r = it.force(it.method_call(me, "reverse", [("c", text)], {}, {"@module": c.module, "@owner": c}, 0, None))
                problems.append("a document written by %s is read without complaint as %s" % (name, _show(r)[:60]))
            except _Raise:
                pass
        own = it.force(it.method_call(me, "transform", [("dict", {k_: ("c", v_) for k_, v_ in conf.items()})], {}, {"@module": c.module, "@owner": c}, 0, None))
        if own[0] != "c" or not isinstance(own[1], str):
            return None
        for label, text in (("its own document", own[1]), ("its own document with comment and blank lines", "# saved by yowsup\n\n" + own[1] + "\n; end\n")):
            try:
                r = it.force(it.method_call(me, "reverse", [("c", text)], {}, {"@module": c.module, "@owner": c}, 0, None))
            except _Raise as x:
                problems.append("%s is rejected (%s)" % (label, (x.text or "")[:40]))
                continue
            got = {k_: (v_[1] if isinstance(v_, tuple) and v_[0] == "c" else None) for k_, v_ in r[1].items()} if r[0] == "dict" else None
            if got != conf:
                problems.append("%s comes back as %s" % (label, _show(r)[:60]))
    except (NeedAtom, Budget, DomainGrew, _Raise):
        return None
    return problems


def open_calls(fn):
    out = []
    for n in ast.walk(fn):
        if isinstance(n, ast.Call) and isinstance(n.func, ast.Name) and n.func.id == "open" and n.args:
            out.append(n)
    return out


def mode_of(ev, call):
    m = call.args[1] if len(call.args) > 1 else None
    for k in call.keywords:
        if k.arg == "mode":
            m = k.value
    if m is None:
        return ["r"]
    a = alts(ev.ev(m))
    if a is None and isinstance(m, ast.IfExp):
        x, y = alts(ev.ev(m.body)), alts(ev.ev(m.orelse))
        if x and y:
            return x + y
    return a


def fs_trace_profile_write(ctx):
    """writeProfileData(profile, name, value), abstractly executed with the file system opaque: what is observed is the
    sequence of file-system calls per path class - the directory exists / does not exist (os.path.exists / isdir are
    scripted), text / bytes value.
      C19.atomic  every file opened for writing is a sibling of the profile file (the target path with a suffix, or another
                  name in the target's directory), never the profile file itself; the value is written to it; it is closed;
                  only then it is moved over the target with os.replace / os.rename(sibling, target); the target is the
                  path of `name` inside the profile's storage directory
      C19.dir     before the file is created its directory is known to exist: os.makedirs(dir) was called, or
                  exists(dir) answered yes"""
    from ..absint import Interp, _Raise, NeedAtom, Budget, DomainGrew, C_NONE, enumerate_cells, flat_effects, show
    repo = ctx.repo
    st = repo.cls(TOOLS, "StorageTools")
    wpd = repo.method(TOOLS, "StorageTools", "writeProfileData")
    w = where(TOOLS, "StorageTools.writeProfileData", wpd.lineno)
    # paths are concrete (the profile's directory and the file name are fixed strings, os.path functions are computed):
    # whatever way the code puts a path together, what reaches the file system is compared as a string
    import posixpath
    PROFILE, NAME, VAL, STORAGE = ("c", "alice"), ("c", "config.json"), ("ext", "VAL", []), ("c", "/store/alice")
    TARGET = ("c", posixpath.join(STORAGE[1], NAME[1]))

    def mentions(t, x):
        if t == x:
            return True
        if isinstance(t, tuple):
            return any(mentions(y, x) for y in t if isinstance(y, (tuple, list)))
        if isinstance(t, list):
            return any(mentions(y, x) for y in t)
        return False

    def libcall(t, name):
        """the arguments when t is the result of the library function `name` (os.path.join / dirname), else None"""
        if isinstance(t, tuple) and t[0] in ("ext", "fn") and t[1].strip(".()").split(".")[-1] == name:
            return [x for x in t[2] if not (isinstance(x, tuple) and x[0] == "fn" and x[1].startswith("."))]
        return None

    def dir_of(t):
        """the directory a path term lies in, as a term (or None)"""
        if isinstance(t, tuple) and t[0] == "c" and isinstance(t[1], str):
            return ("c", posixpath.dirname(t[1]))
        a = libcall(t, "join")
        if a and len(a) >= 2:
            return a[0] if len(a) == 2 else ("ext", ".join()", a[:-1])
        if isinstance(t, tuple) and t[0] == "fn" and t[1] == "Add" and t[2][1][0] == "c" and isinstance(t[2][1][1], str) and "/" not in t[2][1][1] and "\\" not in t[2][1][1]:
            return dir_of(t[2][0])          # the same name with a suffix: the same directory
        return None

    def same_dir(d, path):
        if isinstance(d, tuple) and d[0] == "c" and isinstance(d[1], str) and path[0] == "c" and isinstance(path[1], str):
            return posixpath.normpath(d[1]) == posixpath.normpath(posixpath.dirname(path[1]))
        a = libcall(d, "dirname")
        if a:
            return a[0] == path or dir_of(a[0]) == dir_of(path) and dir_of(path) is not None
        return d == dir_of(path) and d is not None

    mgr = repo.cls(MGR, "ConfigManager")

    def scenario(exists_flag, entry="data"):
        def run(cell, domains):
            log = []

            def open_(itp, e, args, kwargs, env, depth):
                mode = args[1] if len(args) > 1 else kwargs.get("mode", ("c", "r"))
                f = ("ext", "file#%d" % len(log), [])
                itp.emit("CALL", "open", [args[0] if args else C_NONE, itp.concrete(mode) if mode[0] == "atom" else mode], f)
                return f

            def storage(itp, fn, owner, self_val, args, kwargs):
                return STORAGE

            def extcall(itp, label, args, kwargs, env, depth, e):
                leaf = label.strip(".()").split(".")[-1]
                if leaf in ("exists", "isdir"):
                    itp.emit("CALL", "exists", list(args), None)
                    return ("c", exists_flag)
                if leaf == "isfile" and len(args) == 1 and args[0][0] == "c":
                    # the profile has been saved before: its configuration file is there (and nothing else)
                    return ("c", exists_flag and args[0] == TARGET)
                strs = [a for a in args if a[0] == "c" and isinstance(a[1], str)]
                if leaf in ("join", "dirname", "basename", "normpath", "abspath", "split", "splitext") and strs and len(strs) == len(args) and not kwargs \
                        and e is not None and "path" in unparse(e.func):
                    r_ = getattr(posixpath, leaf)(*[a[1] for a in strs])
                    return ("c", r_)
                return None
            it = Interp(repo, cell, domains, hooks={"builtin:open": open_, "fn:getStorageForProfile": storage, "extcall": extcall,
                                                    "fn:config_to_str": lambda itp, fn_, owner_, sv_, a_, k_: VAL})
            raised = None
            try:
                if entry == "save":
                    # the whole way: ConfigManager.save(profile, config) with the serialised text standing for itself
                    o = it.construct(mgr, [], {}, {"@module": mgr.module, "@owner": None}, 0, None)
                    it.effects[:] = []
                    it.method_call(o, "save", [PROFILE, ("ext", "CONFIG", [])], {}, {"@module": mgr.module, "@owner": mgr}, 0, None)
                else:
                    it.call_function(wpd, st, None, [PROFILE, NAME, VAL], {}, depth=0)
            except _Raise as r:
                raised = r.text
            return {"effects": list(flat_effects(it.effects)), "raised": raised}, it
        return enumerate_cells(run, {}, max_cells=64)
    bad_atomic, bad_dir, n_open, n_cells = set(), set(), 0, 0
    for flag, entry in ((True, "data"), (False, "data"), (True, "save"), (False, "save")):
        try:
            cells = scenario(flag, entry)
        except (Budget, NeedAtom, DomainGrew) as x:
            ctx.undecided("C19.atomic", w, "file-system trace of %s" % ("writeProfileData" if entry == "data" else "ConfigManager.save"), "could not be executed: %s" % (x,))
            return
        for cell, r in cells:
            n_cells += 1
            when = "directory %s%s" % ("exists" if flag else "does not exist", ", through ConfigManager.save" if entry == "save" else "")
            if r["raised"]:
                bad_atomic.add("%s raises %s [%s]" % ("writeProfileData" if entry == "data" else "save", r["raised"][:60], when))
                continue
            events = []
            for e in r["effects"]:
                if e[0] == "CALL":
                    events.append(("call", e[1], e[2], e[3] if len(e) > 3 else None))
                elif e[0] in ("ENTER", "EXIT"):
                    events.append((e[0].lower(), e[1]))
            opens = [(i, ev) for i, ev in enumerate(events) if ev[0] == "call" and ev[1] == "open"]
            unknown_mode = [ev for i, ev in opens if not (ev[2][1][0] == "c" and isinstance(ev[2][1][1], str))]
            if unknown_mode:
                bad_atomic.add("a file is opened with a mode that is not a known constant (%s)" % show(unknown_mode[0][2][1])[:30])
                continue
            writes = [(i, ev) for i, ev in opens if any(ch in ev[2][1][1] for ch in "wax+")]
            renames = [(i, ev) for i, ev in enumerate(events) if ev[0] == "call" and ev[1].split(".")[-1] in ("replace", "rename") and len(ev[2]) == 2]
            if not writes:
                bad_atomic.add("no file is opened for writing [%s]" % when)
                continue
            n_open += len(writes)
            target = renames[-1][1][2][1] if renames else None
            if target is None:
                bad_atomic.add("the value is written straight to %s and nothing is moved over the profile file afterwards: the profile file itself is opened with a truncating mode - a crash during the write leaves an empty or partial config (the key pair is lost)" % show(writes[0][1][2][0])[:50])
                continue
            for i, e2 in enumerate(events):
                if e2[0] == "call" and e2[2] and e2[2][0] == target and e2[1].split(".")[-1] in ("replace", "rename", "remove", "unlink", "move", "truncate"):
                    bad_atomic.add("the profile file itself is %s (%s) before the new one is in place: if the process dies right after that, the profile has no configuration file at all - neither the previous nor the new one loads" % (
                        "moved away" if e2[1].split(".")[-1] in ("replace", "rename", "move") else "removed", e2[1]))
            if target != TARGET:
                bad_atomic.add("the file that is replaced (%s) is not `name` inside the profile's storage directory" % show(target)[:60])
            for oi, ev in writes:
                path, f = ev[2][0], ev[3]
                if path == target:
                    bad_atomic.add("the profile file itself is opened with a truncating mode: a crash during the write leaves an empty or partial config (the key pair is lost)")
                    continue
                if dir_of(path) is None or dir_of(path) != dir_of(target):
                    bad_atomic.add("the temporary file %s is not a sibling of the target (another directory: the move is not atomic / may cross file systems)" % show(path)[:60])
                mine = [(i, e2) for i, e2 in renames if e2[2][0] == path and e2[2][1] == target]
                if not mine:
                    bad_atomic.add("the temporary file %s is never moved over the target" % show(path)[:60])
                    continue
                ri = mine[-1][0]
                wrote = [i for i, e2 in enumerate(events) if e2[0] == "call" and e2[3] is f and e2[1].split(".")[-1] in ("write", "writelines") and i < ri]
                closed = [i for i, e2 in enumerate(events) if ((e2[0] == "call" and e2[3] is f and e2[1].split(".")[-1] == "close") or (e2[0] == "exit" and e2[1] is f)) and i < ri]
                if not wrote or not any(mentions(events[i][2], VAL) for i in wrote):
                    bad_atomic.add("the value is not written to the temporary file before it replaces the target")
                elif not closed or max(wrote) > max(closed):
                    bad_atomic.add("the temporary file is renamed over the profile file while it is still open: its buffered content has not been written, so a crash right after the rename leaves an empty or partial config")
                made = [e2 for i, e2 in enumerate(events) if i < oi and e2[0] == "call" and e2[1].split(".")[-1] in ("makedirs", "mkdir") and e2[2] and same_dir(e2[2][0], path)]
                asked = [e2 for i, e2 in enumerate(events) if i < oi and e2[0] == "call" and e2[1] == "exists" and e2[2] and same_dir(e2[2][0], path)]
                if not made and not (asked and flag):
                    bad_dir.add("when the %s, the file is created there without anything ensuring it: saving a profile that was never used raises FileNotFoundError" % when)
    ctx.check("C19.atomic", not bad_atomic and n_open > 0, w, "temporary sibling, written, closed, then moved over the profile file",
              "; ".join(sorted(bad_atomic)[:2]), "in %d path class(es): sibling file written and closed before it is moved over the target" % n_cells)
    ctx.check("C19.atomic", not any("itself" in b_ or "straight" in b_ for b_ in bad_atomic) and n_open > 0, w, "the profile file itself is never opened for writing", "; ".join(sorted(b_ for b_ in bad_atomic if "itself" in b_ or "straight" in b_)[:1]), "only the sibling is opened for writing")
    ctx.check("C19.dir", not bad_dir and n_open > 0, w, "directory of the created file ensured", "; ".join(sorted(bad_dir)[:2]), "makedirs(dir) or exists(dir) before the file is created, in every path class")


def rule_atomic_dir(ctx):
    repo = ctx.repo
    st = repo.cls(TOOLS, "StorageTools")
    ev = Evaluator(repo, st.module, st)
    wpd = repo.method(TOOLS, "StorageTools", "writeProfileData")
    w = where(TOOLS, "StorageTools.writeProfileData", wpd.lineno)
    from ..repo import inline_private_calls
    wpd = inline_private_calls(repo, st, wpd)         # a private "write to a sibling, then rename" helper is part of it
    # the chain save -> writeProfileConfig -> writeProfileData
    save = repo.method(MGR, "ConfigManager", "save")
    wpc = repo.method(TOOLS, "StorageTools", "writeProfileConfig")
    ok = bool(calls_named(save, "writeProfileConfig")) and bool(calls_named(wpc, "writeProfileData"))
    ctx.check("C19.atomic", ok, where(MGR, "ConfigManager.save", save.lineno), "save -> writeProfileConfig -> writeProfileData", "profile save no longer goes through StorageTools.writeProfileData", "save chain resolved")
    fs_trace_profile_write(ctx)
    # who-may-write: the only way library code saves a configuration is save(profile, config[, type]) -> the atomic profile
    # path above; the `dest=` form of save truncates its target in place (an export for tools), and nothing else opens a
    # file under the profile directory for writing
    n_sites = 0
    for m in sorted(repo.modules.values(), key=lambda m: m.relpath):
        if "/demos/" in m.relpath or "/test_" in m.relpath or m.relpath in (MGR, TOOLS):
            continue
        for fnode in [x for x in ast.walk(m.tree) if isinstance(x, ast.FunctionDef)]:
            uses_profile_dir = bool(calls_named(fnode, "getStorageForProfile"))
            for c in ast.walk(fnode):
                if not isinstance(c, ast.Call):
                    continue
                if isinstance(c.func, ast.Attribute) and c.func.attr == "save" and (any(k.arg == "dest" for k in c.keywords) or len(c.args) >= 4) and ("onfig" in unparse(c.func.value) or uses_profile_dir):
                    n_sites += 1
                    ctx.violate("C19.atomic", where(m.relpath, fnode.name, c.lineno), c,
                                "library code saves a configuration through save(..., dest=...): that branch opens the destination with a truncating mode, so a crash during the write leaves an empty or partial config file in place of the old one")
                if isinstance(c.func, ast.Name) and c.func.id == "open" and uses_profile_dir and any(ch in mo for mo in (mode_of(Evaluator(repo, m, None), c) or ["?"]) for ch in "wax+"):
                    n_sites += 1
                    ctx.violate("C19.atomic", where(m.relpath, fnode.name, c.lineno), c, "a file in the profile directory is opened for writing outside StorageTools.writeProfileData (no temp file + rename)")
    ctx.hold("C19.atomic", where(MGR, "ConfigManager.save", save.lineno), "only the profile path writes configs from library code", "no library call of save(dest=...) and no direct write into the profile directory") if not n_sites else None
    # ---- C19.dir : abstract path algebra
    # paths are tuples of symbolic components; ensured = set of directories known to exist
    cp = repo.method(TOOLS, "StorageTools", "constructPath")
    gsp = repo.method(TOOLS, "StorageTools", "getStorageForProfile")

    class PathEval:
        def __init__(self):
            self.ensured = set()
            self.opened = []

        def ensure(self, p):
            while p:
                self.ensured.add(p)
                p = p[:-1]

        def ev(self, e, env):
            if isinstance(e, ast.Name):
                return env.get(e.id, (e.id,))
            if isinstance(e, ast.Constant):
                return (repr(e.value),)
            if isinstance(e, ast.Attribute):
                return (unparse(e),)
            if isinstance(e, ast.BinOp) and isinstance(e.op, ast.Add):
                l = self.ev(e.left, env)
                return l[:-1] + (l[-1] + "+" + unparse(e.right),) if l else None
            if isinstance(e, ast.Call):
                fn = unparse(e.func)
                if fn == "os.path.join":
                    out = ()
                    for a in e.args:
                        if isinstance(a, ast.Starred):
                            v = env.get(unparse(a.value))
                            out += v if v else ("*" + unparse(a.value),)
                        else:
                            out += self.ev(a, env)
                    return out
                if fn == "os.path.dirname":
                    return self.ev(e.args[0], env)[:-1]
                if fn == "user_config_dir":
                    return ("<config-home>",)
                if fn == "str":
                    return self.ev(e.args[0], env)
                if fn.endswith(".constructPath"):
                    return self.run(cp, {"path": tuple(x for a in e.args for x in self.ev(a, env))})
                if fn.endswith(".getStorageForProfile"):
                    return self.run(gsp, {params_of(gsp, drop_self=False)[0]: self.ev(e.args[0], env)})
            return (unparse(e),)

        def run(self, fn, env):
            env = dict(env)
            return self.block(fn.body, env)

        def block(self, stmts, env):
            for s in stmts:
                if isinstance(s, ast.Assign) and isinstance(s.targets[0], ast.Name):
                    env[s.targets[0].id] = self.ev(s.value, env)
                elif isinstance(s, ast.If):
                    # `if not exists(d): makedirs(d)` ensures d either way; type checks are transparent
                    r = self.block(s.body, env)
                    if r is not None and not any(isinstance(x, ast.Call) and unparse(x.func) == "os.makedirs" for x in ast.walk(s)):
                        return r
                elif isinstance(s, ast.Expr) and isinstance(s.value, ast.Call) and unparse(s.value.func) == "os.makedirs":
                    self.ensure(self.ev(s.value.args[0], env))
                elif isinstance(s, ast.With):
                    for it in s.items:
                        c = it.context_expr
                        if isinstance(c, ast.Call) and isinstance(c.func, ast.Name) and c.func.id == "open":
                            self.opened.append((c, self.ev(c.args[0], env)))
                    self.block(s.body, env)
                elif isinstance(s, ast.Try):
                    r = self.block(s.body, env)
                    if r is not None:
                        return r
                    r = self.block(s.orelse, env) if s.orelse else None
                    if r is not None:
                        return r
                    self.block(s.finalbody, env)
                elif isinstance(s, ast.Return):
                    return self.ev(s.value, env) if s.value is not None else None
            return None
    # the key store path (factory) also lands in an ensured directory
    fac = repo.method("yowsup/axolotl/factory.py", "AxolotlManagerFactory", "get_manager")
    pe2 = PathEval()
    for n in ast.walk(fac):
        if isinstance(n, ast.Call) and unparse(n.func).endswith("constructPath"):
            p = pe2.ev(n, {"profile_name": ("<profile>",)})
            ctx.check("C19.dir", p[:-1] in pe2.ensured, where("yowsup/axolotl/factory.py", "AxolotlManagerFactory.get_manager", n.lineno), "creates %s" % "/".join(p),
                      "key store directory %s is not ensured" % "/".join(p[:-1]), "directory ensured")


def read_modes_exec(repo, cls):
    """ConfigManager._load_path executed for a file with a known extension and for one without (format detection by
    trial parse): every open() that happens on the way is recorded with its path and mode
    -> [(scenario, [(path, mode)])] or None when the executions cannot be followed"""
    from ..absint import Interp, _Raise, NeedAtom, Budget, DomainGrew, C_NONE
    import posixpath
    ev = Evaluator(repo, cls.module, cls)
    k, e = repo.class_const(cls, "MAP_EXT")
    a = alts(ev.sub(class_scope=cls).ev(e)) if e is not None else None
    exts = [x for x in (a[0] if a and isinstance(a[0], dict) else {}) if x]
    if not exts:
        return None
    out = []
    for label, path in [("a file named *.%s" % exts[0], "/d/config.%s" % exts[0]), ("a file without an extension", "/d/config")]:
        opened = []

        def open_(itp, e_, args, kwargs, env, depth):
            pth = args[0] if args else kwargs.get("file")
            mode = args[1] if len(args) > 1 else kwargs.get("mode", ("c", "r"))
            mode = itp.force(mode)
            opened.append((pth[1] if pth is not None and pth[0] == "c" else "?", mode[1] if mode[0] == "c" else None))
            return ("ext", "file", [])

        def extcall(itp, lab, args, kwargs, env, depth, e_):
            leaf = lab.strip(".()").split(".")[-1]
            cs = [x for x in args if x[0] == "c" and isinstance(x[1], str)]
            if leaf == "isfile" and len(cs) == 1 == len(args):
                return ("c", cs[0][1] == path)
            if leaf == "splitext" and len(cs) == 1 == len(args):
                return ("c", tuple(posixpath.splitext(cs[0][1])))
            return None
        hooks = {"extcall": extcall, "builtin:open": open_, "fn:load_data": lambda *a_: ("ext", "CONFIG", []),
                 "fn:reverse": lambda *a_: ("ext", "datadict", [])}
        it = Interp(repo, {}, {}, hooks=hooks)
        try:
            o = it.construct(cls, [], {}, {"@module": cls.module, "@owner": None}, 0, None)
            try:
                it.method_call(o, "_load_path", [("c", path)], {}, {"@module": cls.module, "@owner": cls}, 0, None)
            except _Raise:
                pass
        except (NeedAtom, Budget, DomainGrew):
            return None
        out.append((label, opened))
    return out


def rule_mode(ctx):
    repo = ctx.repo
    cls = repo.cls(MGR, "ConfigManager")
    ev = Evaluator(repo, cls.module, cls)
    save = repo.method(MGR, "ConfigManager", "save")
    # type of the text produced by config_to_str = union of the transform() return types of every format class
    k, te = repo.class_const(cls, "TYPES")
    ts = set()
    if isinstance(te, ast.Dict):
        for vv in te.values:
            c = repo.resolve_expr_class(cls.module, vv)
            if c is not None and "transform" in c.methods:
                t = c.methods["transform"]
                for r in ast.walk(t):
                    if isinstance(r, ast.Return) and r.value is not None:
                        x = expr_types(repo, c, t, r.value)
                        if isinstance(r.value, ast.Call) and unparse(r.value.func) == "json.dumps":
                            x = {"str"}
                        ts |= x
    for oc in open_calls(save):
        modes = mode_of(ev, oc) or []
        binary = any("b" in m for m in modes)
        w = where(MGR, "ConfigManager.save", oc.lineno)
        if ts == {"str"}:
            ctx.check("C19.mode", not binary, w, oc, "every format produces str but the destination is opened in binary mode %s: save(dest=...) raises TypeError" % modes, "text written to a text-mode file")
        else:
            ctx.hold("C19.mode", w, oc, "serialised type %s" % sorted(ts))
    # read side: whatever is opened on the way from _load_path to the parsed text is opened as text - decided by
    # executing _load_path for a file with and one without a known extension
    rm = read_modes_exec(repo, cls)
    if rm is not None and all(opened for _l, opened in rm):
        lp = repo.method(MGR, "ConfigManager", "_load_path")
        for label, opened in rm:
            bad = ["%s opened with mode %r" % (p_, m_) for p_, m_ in opened if m_ is None or "b" in m_ or not m_.startswith("r")]
            ctx.check("C19.mode", not bad, where(MGR, "ConfigManager._load_path", lp.lineno), "loading %s" % label,
                      "config is parsed as text but read in binary mode (%s)" % "; ".join(bad), "read as text (%d open call(s))" % len(opened))
        return
    for name in ("_load_path", "guess_type"):
        fn = repo.method(MGR, "ConfigManager", name)
        for oc in open_calls(fn):
            modes = mode_of(ev, oc) or []
            ctx.check("C19.mode", not any("b" in m for m in modes), where(MGR, "ConfigManager." + name, oc.lineno), oc, "config is parsed as text but read in binary mode", "read as text")


def run(ctx):
    ctx.rule("C19.maps", "forward/reverse maps, pipeline order, filters and meta agree", floor=12)
    ctx.rule("C19.ctor", "serialised attributes are constructor parameters mapped to their own attribute; accessors", floor=45)
    ctx.rule("C19.ext", "format tables and load paths", floor=6)
    ctx.rule("C19.detect", "trial-parse auto-detection: earlier formats reject later formats' documents", floor=2)
    ctx.rule("C19.atomic", "temp file + rename on the profile save path", floor=3)
    ctx.rule("C19.dir", "directory of the created file is ensured", floor=2)
    ctx.rule("C19.mode", "text/binary mode agreement of config files", floor=3)
    ctx.assume("os.replace is atomic on POSIX; JSON / key=value value round trip is not decided")
    decided = ctx.guarded("C19.maps", rule_pipeline, ctx)
    if not decided:
        # the execution found a problem or could not run: the structural reading names the map entry / stage at fault
        ctx.guarded("C19.maps", rule_maps, ctx)
    ctx.guarded("C19.ctor", rule_ctor, ctx)
    ctx.guarded("C19.ext", rule_ext, ctx)
    ctx.guarded("C19.detect", rule_detect, ctx)
    ctx.guarded("C19.atomic_dir", rule_atomic_dir, ctx)
    ctx.guarded("C19.mode", rule_mode, ctx)
