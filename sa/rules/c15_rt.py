"""C15 by abstract execution: MediaCipher's own code is run on the byte-string / crypto algebra of sa/bytealg - contents
opaque, lengths concrete - and what it produces is compared with the reference construction of the format

    C = ENC_AES-CBC(key = S[16:48], iv = S[0:16], P || pkcs7) || HMAC-SHA256(S[48:80], S[0:16] || ENC...)[0:10],   S = HKDFv3(K, info_kind) (at least 80 bytes of it)

Scenarios (per media kind, one cipher object unless said otherwise):
  layout     encrypt_kind(P, K) for |P| = 0..64 equals the reference construction                      (C15.kdf / C15.pad / C15.mac / C15.kinds)
  round trip decrypt_kind(encrypt_kind(P, K), K) = P for |P| = 0..64, nothing raised                   (C15.rt)
  tamper     ciphertext body replaced / tag replaced / tag correct only in its first n = 1..9 bytes / truncated by
             1, 3, 10, 11, 16 bytes / empty / another key / another kind: an exception, and no decryptor.update()
             before it                                                                                 (C15.mac / C15.first / C15.kinds)
  history    encrypt_A(P, K) then encrypt_B(P, K) on the same object and decrypt_B on a fresh object: each equals its own
             reference (a cache keyed by the key alone serves kind A's secrets to kind B)              (C15.kinds)
How encrypt / decrypt are written - helpers, caches, hand-written padding, tables - does not matter: they are executed.
"""
from ..absint import Interp, _Raise, NeedAtom, Budget, DomainGrew, C_NONE, enumerate_cells, show
from ..bytealg import BytesAlg
from ..report import where

FILE = "yowsup/layers/protocol_media/mediacipher.py"
CLS = "MediaCipher"
KINDS = {"image": b"WhatsApp Image Keys", "audio": b"WhatsApp Audio Keys", "video": b"WhatsApp Video Keys", "document": b"WhatsApp Document Keys"}
TAG = 10


class Lab:
    """one interpreter + algebra + cipher object(s)"""

    def __init__(self, repo, cell=None, domains=None):
        self.repo = repo
        self.alg = BytesAlg()
        self.it = Interp(repo, cell if cell is not None else {}, domains if domains is not None else {}, hooks=self.alg.hooks())
        self.it.max_steps = 200000
        self.cls = repo.cls(FILE, CLS)
        self.env = {"@module": self.cls.module, "@owner": None}

    def cipher(self):
        return self.it.construct(self.cls, [], {}, self.env, 0, None)

    def content(self, name, n):
        return self.alg.content(self.it, (name,), n)

    def call(self, obj, method, args):
        """-> ('ret', value) | ('raise', text); events of this call in self.last_events"""
        n0 = len(self.alg.events)
        try:
            v = self.it.method_call(obj, method, list(args), {}, self.env, 0, None)
            r = ("ret", v)
        except _Raise as x:
            r = ("raise", getattr(x, "text", str(x)))
        self.last_events = self.alg.events[n0:]
        return r

    def reference(self, P, K, info):
        a = self.alg
        nm = ("HKDF", "HKDFv3", a.canon(K), (("const", info),))
        a.base_len[nm] = max(a.base_len.get(nm, 0), 112)
        sa = [("sym", nm, 0, 112)]
        iv, key, mk = a.cut(sa, 0, 16), a.cut(sa, 16, 48), a.cut(sa, 48, 80)
        pa = a.atoms_of(P)
        n = a.total(pa)
        f = 16 - n % 16
        padded = a.normalise(pa + [("const", bytes([f]) * f)])
        en = ("ENC", "AES", "CBC", tuple(key), tuple(iv), tuple(padded))
        a.base_len[en] = n + f
        enc = ("sym", en, 0, n + f)
        mn = ("MAC", tuple(mk), "sha256", tuple(a.normalise(iv + [enc])))
        a.base_len[mn] = 32
        return a.normalise([enc, ("sym", mn, 0, TAG)])


def describe(alg, atoms):
    """what a produced ciphertext is made of, in words (for the report)"""
    out = []
    for a in atoms:
        if a[0] == "const":
            out.append("%d known byte(s)" % len(a[1]))
        elif a[0] == "sym" and isinstance(a[1], tuple):
            nm = a[1]
            if nm[0] == "ENC":
                out.append("%s-%s(key=%s, iv=%s, %s)[%s:%s]" % (nm[1], nm[2], piece(nm[3]), piece(nm[4]), plain(nm[5]), a[2], a[2] + a[3] if a[3] is not None else "?"))
            elif nm[0] == "MAC":
                out.append("HMAC-%s(key=%s, over %s)[%s:%s]" % (nm[2], piece(nm[1]), " || ".join(piece((x,)) for x in nm[3]), a[2], a[2] + a[3] if a[3] is not None else "?"))
            else:
                out.append("%s[%s:%s]" % (nm[0], a[2], (a[2] + a[3]) if a[3] is not None else "?"))
        else:
            out.append(str(a[0]))
    return " || ".join(out) or "nothing"


def piece(atoms):
    out = []
    for a in atoms:
        if a[0] == "const":
            out.append("%d const" % len(a[1]))
        elif a[0] == "sym":
            nm = a[1]
            head = nm[0] if isinstance(nm, tuple) else str(nm)
            if head == "HKDF":
                info = nm[3][0][1] if nm[3] and nm[3][0][0] == "const" else "?"
                head = "HKDF(%s,%r)" % (nm[1], info if not isinstance(info, bytes) else info.decode("latin-1"))
            elif head == "ENC":
                head = "ciphertext"
            out.append("%s[%s:%s]" % (head, a[2], a[2] + a[3] if a[3] is not None else "?"))
        else:
            out.append(a[0])
    return "+".join(out) or "empty"


def plain(atoms):
    atoms = list(atoms)
    pad = ""
    if atoms and atoms[-1][0] == "const" and len(set(atoms[-1][1])) == 1 and atoms[-1][1][0] == len(atoms[-1][1]):
        pad = " || pkcs7(%d)" % len(atoms[-1][1])
        atoms = atoms[:-1]
    return (piece(atoms) if atoms else "empty") + (pad or " (NOT padded)")


def rule_cipher(ctx):
    repo = ctx.repo
    cls = repo.cls(FILE, CLS)
    W = lambda m: where(FILE, "%s.%s" % (CLS, m), getattr(cls.methods.get(m), "lineno", None))
    lens = list(range(0, 65)) if ctx.tier == "thorough" else [0, 1, 15, 16, 17, 31, 32, 33, 48, 64]
    notes = set()
    problems = {}            # (rule, label) -> set of texts
    n_checked = {}

    def problem(rule, label, text):
        problems.setdefault((rule, label), set()).add(text)

    def ok(rule, label):
        n_checked[(rule, label)] = n_checked.get((rule, label), 0) + 1

    def has_method(name):
        """a def of the class (or a base), or a function made in the class body (`encrypt_image = factory(...)`)"""
        if repo.find_method(cls, name)[1] is not None:
            return True
        kc_, ce_ = repo.class_const(cls, name)
        if ce_ is None:
            return False
        v_ = Lab(repo).it.class_const_value(kc_, cls, ce_)
        return v_[0] in ("closure", "clsmethod")

    def run_all(cell, domains):
        out = []
        for kind, info in sorted(KINDS.items()):
            enc_m, dec_m = "encrypt_" + kind, "decrypt_" + kind
            if not has_method(enc_m) or not has_method(dec_m):
                out.append(("missing", kind))
                continue
            for L in lens:
                lab = Lab(repo, cell, domains)
                a = lab.alg
                c = lab.cipher()
                P, K = lab.content("P", L), lab.content("K", 32)
                r = lab.call(c, enc_m, [P, K])
                if r[0] == "raise":
                    out.append(("encrypt-raises", kind, L, r[1]))
                    continue
                C = r[1]
                ca = a.atoms_of(C)
                if ca is None:
                    out.append(("encrypt-nonbytes", kind, L, show(C)[:50]))
                    continue
                ref = lab.reference(P, K, info)
                out.append(("layout", kind, L, a.normalise(ca) == ref, describe(a, a.normalise(ca)), describe(a, ref)))
                # round trip on the same object and on a fresh one
                for who, obj in (("same object", c), ("fresh object", lab.cipher())):
                    r2 = lab.call(obj, dec_m, [C, K])
                    evs = list(lab.last_events)
                    if r2[0] == "raise":
                        out.append(("roundtrip", kind, L, who, False, "raises %s" % r2[1][:60]))
                    else:
                        pa = a.atoms_of(r2[1])
                        same = pa is not None and a.normalise(pa) == a.normalise(a.atoms_of(P))
                        out.append(("roundtrip", kind, L, who, same, "returns %s" % (describe(a, a.normalise(pa)) if pa is not None else show(r2[1])[:40])))
                    out.append(("order", kind, L, mac_first(evs)))
                if L not in (0, 16, 33):
                    continue
                # tampering (three lengths are enough: the checks do not depend on the content)
                n = a.total(ca)
                if n is None or n < TAG:
                    continue
                body, tag = a.cut(ca, 0, n - TAG), a.cut(ca, n - TAG, n)
                forged = [("tag replaced", body + [("sym", ("T",), 0, TAG)]), ("empty input", [])]
                if n - TAG > 0:
                    forged += [("body replaced", [("sym", ("X",), 0, n - TAG)] + tag), ("tag only", tag)]
                a.base_len[("X",)] = n - TAG
                a.base_len[("T",)] = TAG
                for k in range(1, TAG):
                    forged.append(("tag correct in its first %d byte(s) only" % k, body + a.cut(tag, 0, k) + [("sym", ("T%d" % k,), 0, TAG - k)]))
                for cutn in (1, 3, TAG, TAG + 1, 16):
                    if n - cutn >= 0:
                        forged.append(("truncated by %d byte(s)" % cutn, a.cut(ca, 0, n - cutn)))
                for label, atoms in forged:
                    r3 = lab.call(lab.cipher(), dec_m, [a.bt(lab.it, atoms), K])
                    out.append(("tamper", kind, L, label, r3[0] == "raise", cipher_before_raise(lab.last_events), r3[1] if r3[0] == "raise" else describe(a, a.normalise(a.atoms_of(r3[1]) or []))))
                r4 = lab.call(lab.cipher(), dec_m, [C, lab.content("K2", 32)])
                out.append(("tamper", kind, L, "another key", r4[0] == "raise", cipher_before_raise(lab.last_events), ""))
                for other in sorted(KINDS):
                    if other != kind and has_method("decrypt_" + other):
                        r5 = lab.call(lab.cipher(), "decrypt_" + other, [C, K])
                        out.append(("tamper", kind, L, "decrypted as %s" % other, r5[0] == "raise", cipher_before_raise(lab.last_events), ""))
                notes.update(a.notes)
            # history on one object: another kind first, with the same key
            for other in sorted(KINDS):
                if other == kind or not has_method("encrypt_" + other):
                    continue
                lab = Lab(repo, cell, domains)
                a = lab.alg
                c = lab.cipher()
                P, K = lab.content("P", 20), lab.content("K", 32)
                lab.call(c, "encrypt_" + other, [P, K])
                r = lab.call(c, enc_m, [P, K])
                if r[0] == "ret" and a.atoms_of(r[1]) is not None:
                    got = a.normalise(a.atoms_of(r[1]))
                    out.append(("history", kind, other, got == lab.reference(P, K, info), describe(a, got)))
                    r2 = lab.call(lab.cipher(), dec_m, [r[1], K])
                    same = r2[0] == "ret" and a.atoms_of(r2[1]) is not None and a.normalise(a.atoms_of(r2[1])) == a.normalise(a.atoms_of(P))
                    out.append(("history-rt", kind, other, same, r2[1] if r2[0] == "raise" else ""))
                else:
                    out.append(("history", kind, other, False, "raises / not bytes: %s" % (r[1] if r[0] == "raise" else show(r[1])[:40])))
                notes.update(a.notes)
                break
        return out, None
    try:
        cells = enumerate_cells(run_all, {}, max_cells=256)
    except (Budget, NeedAtom, DomainGrew) as x:
        ctx.undecided("C15.pad", W("encrypt"), "media cipher scenarios", "could not be executed: %s" % (x,))
        return False
    for cell, out in cells:
        when = ""
        falsy = sorted(str(k[1]) for k, v in cell.items() if isinstance(k, tuple) and len(k) > 1)
        if falsy:
            when = " [path class: %s]" % "; ".join("%s=%s" % (str(k[1])[:50], v) for k, v in sorted(cell.items(), key=str))[:160]
        for rec in out:
            t = rec[0]
            if t == "missing":
                problem("C15.kinds", "kind %s" % rec[1], "encrypt_%s / decrypt_%s vanished" % (rec[1], rec[1]))
            elif t in ("encrypt-raises", "encrypt-nonbytes"):
                problem("C15.pad", "encrypt_%s" % rec[1], "encrypting %d byte(s) %s: %s%s" % (rec[2], "raises" if t == "encrypt-raises" else "does not return bytes", rec[3][:80], when))
            elif t == "layout":
                _t, kind, L, same, got, ref = rec
                for rule in layout_rules(got, ref, same):
                    if same:
                        ok(rule, "layout of encrypt_%s" % kind)
                    else:
                        problem(rule, "layout of encrypt_%s" % kind, "for %d plaintext byte(s) the ciphertext is  %s  - the format is  %s%s" % (L, got, ref, when))
            elif t == "roundtrip":
                _t, kind, L, who, same, what = rec
                if same:
                    ok("C15.rt", "round trip %s" % kind)
                else:
                    problem("C15.rt", "round trip %s" % kind, "decrypt_%s(encrypt_%s(P)) for |P| = %d (%s) %s, not P%s" % (kind, kind, L, who, what, when))
            elif t == "order":
                _t, kind, L, good = rec
                if good:
                    ok("C15.first", "MAC verified before decrypting (%s)" % kind)
                else:
                    problem("C15.first", "MAC verified before decrypting (%s)" % kind, "the decryptor is fed before the tag has been compared with the MAC (|P| = %d)%s" % (L, when))
            elif t == "tamper":
                _t, kind, L, label, raised, cipher_first, extra = rec
                rule = "C15.kinds" if label.startswith("decrypted as") else "C15.mac"
                if raised and not cipher_first:
                    ok(rule, "%s: %s" % (kind, label))
                elif not raised:
                    problem(rule, "%s: %s" % (kind, label), "a ciphertext that was tampered with (%s, |P| = %d) is accepted: decrypt returns %s%s" % (label, L, extra[:80] or "a value", when))
                else:
                    problem("C15.first", "%s: %s" % (kind, label), "the tampered input (%s) is rejected only after it was fed to the decryptor%s" % (label, when))
            elif t == "history":
                _t, kind, other, same, got = rec
                if same:
                    ok("C15.kinds", "encrypt_%s after encrypt_%s with the same key" % (kind, other))
                else:
                    problem("C15.kinds", "encrypt_%s after encrypt_%s with the same key" % (kind, other), "the second result is  %s  (the secrets of the first kind are reused)%s" % (got, when))
            elif t == "history-rt":
                _t, kind, other, same, extra = rec
                if not same and ("C15.rt", "round trip %s" % kind) not in problems:
                    problem("C15.kinds", "encrypt_%s after encrypt_%s with the same key" % (kind, other), "what was encrypted after another kind does not decrypt on a fresh object %s%s" % (extra[:60], when))
    decided = True
    if notes:
        ctx.undecided("C15.pad", W("encrypt"), "media cipher scenarios", "operations outside the byte-string model: %s" % "; ".join(sorted(notes)[:3]))
        decided = False
    for (rule, label), texts in sorted(problems.items()):
        ctx.violate(rule, W("decrypt" if ("tamper" in label or ":" in label or "round trip" in label or "MAC verified" in label) else "encrypt"), label, sorted(texts)[0] + (" (+%d more)" % (len(texts) - 1) if len(texts) > 1 else ""))
    for (rule, label), n in sorted(n_checked.items()):
        if (rule, label) not in problems:
            ctx.hold(rule, W("encrypt" if label.startswith(("layout", "encrypt_")) else "decrypt"), label, "%d scenario(s)" % n)
    ctx.units["C15.lengths"] = len(lens)
    return decided and not problems


def layout_rules(got, ref, same):
    """which clauses a layout comparison speaks to"""
    if same:
        return ["C15.kdf", "C15.pad", "C15.mac", "C15.kinds"]
    rules = set()
    import re
    g_info, r_info = re.findall(r"HKDF\([^)]*\)", got), re.findall(r"HKDF\([^)]*\)", ref)
    if set(g_info) != set(r_info):
        rules.add("C15.kinds" if {x.split(",")[1] for x in g_info} != {x.split(",")[1] for x in r_info} else "C15.kdf")
    if re.findall(r"key=[^,)]*|iv=[^,)]*", got) != re.findall(r"key=[^,)]*|iv=[^,)]*", ref):
        rules.add("C15.kdf")
    if ("NOT padded" in got) or re.findall(r"pkcs7\(\d+\)", got) != re.findall(r"pkcs7\(\d+\)", ref):
        rules.add("C15.pad")
    if re.findall(r"HMAC-.*", got) != re.findall(r"HMAC-.*", ref):
        rules.add("C15.mac")
    return sorted(rules) or ["C15.mac"]


def mac_first(events):
    """in a decrypt that succeeded: a comparison that came out equal precedes the first decryptor update"""
    seen_equal = False
    for e in events:
        if e[0] == "compare" and e[1]:
            seen_equal = True
        if e[0] == "update" and e[1] == "cipherctx:dec":
            return seen_equal
    return True


def cipher_before_raise(events):
    return any(e[0] == "update" and e[1] == "cipherctx:dec" for e in events)
