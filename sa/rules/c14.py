"""C14 - one-time prekeys: bookkeeping shape.

C14.sent    the sent flag is set only from the success callback of the upload request (who-may-call + abstract
            execution of flush_keys and its two callbacks)
C14.flag    pending predicate, written value and insert default are mutually consistent
C14.ids     new ids continue after the stored maximum; the refill threshold is a strict `<`
C14.bundle  identity key, registration id and one signed-prekey record (id, key, signature) feed the upload entity
C14.login   unsent keys force a passive login, are flushed once on a passive authed (by copy, then cleared),
            and the reboot reconnects non-passive
"""
import ast

from ..absint import Interp, Obj, _Raise, C_NONE, show, flat_effects, deps_of
from ..consts import Evaluator, alts
from ..layers import LayerRunner
from ..report import where
from ..repo import unparse, is_self_attr, params_of
from .. import sql
from . import c13
from .c16 import run_handler, event_name, event_arg, _event_obj

CTRL = "yowsup/layers/axolotl/layer_control.py"
MGR = "yowsup/axolotl/manager.py"
PKS = "yowsup/axolotl/store/sqlite/liteprekeystore.py"
AUTH = "yowsup/layers/auth/layer_authentication.py"
NET = "yowsup/layers/network/layer.py"


def call_sites(repo, name):
    out = []
    for m in repo.modules.values():
        if "/demos/" in m.relpath:
            continue
        for c in m.classes.values():
            for fname, fn in c.methods.items():
                for n in ast.walk(fn):
                    if isinstance(n, ast.Call) and isinstance(n.func, ast.Attribute) and n.func.attr == name:
                        out.append((m.relpath, c.name, fname, n))
    return out


def rule_sent(ctx):
    repo = ctx.repo
    chain = [("setAsSent", [(MGR, "AxolotlManager", "set_prekeys_as_sent")]),
             ("set_prekeys_as_sent", [(CTRL, "AxolotlControlLayer", "on_keys_flushed")]),
             ("on_keys_flushed", [(CTRL, "AxolotlControlLayer", "flush_keys")])]
    for name, allowed in chain:
        sites = call_sites(repo, name)
        for (rel, cn, fn, call) in sites:
            repo.consulted.add(rel)
            ok = (rel, cn, fn) in allowed
            ctx.check("C14.sent", ok, where(rel, "%s.%s" % (cn, fn), call.lineno), call,
                      "`%s` may only be called from %s: here keys are marked as uploaded outside the upload's success path" % (name, ", ".join("%s.%s" % (a[1], a[2]) for a in allowed)),
                      "only caller of %s" % name)
        if not sites:
            ctx.violate("C14.sent", where(allowed[0][0], "%s.%s" % (allowed[0][1], allowed[0][2]), None), name, "`%s` is never called: uploaded keys would be offered again forever" % name)
    # abstract execution: flush_keys registers (success -> set_prekeys_as_sent(prekeys), error -> no marking)
    runner = LayerRunner(repo)
    cls = repo.cls(CTRL, "AxolotlControlLayer")
    it = Interp(repo, {}, {}, hooks=runner.hooks())
    it.layer_base = runner.base
    it.pure_depth = 0
    layer = runner.make_layer(it, cls)
    layer[1].fields["_manager"] = ("ext", "manager", [])
    for helper in ("adjustId", "adjustArray"):      # pure byte-formatting helpers: opaque functions of their argument
        it.hooks["method:" + helper] = (lambda hn: (lambda itp, recv, args, kwargs, env, depth, e: ("fn", hn, list(args))))(helper)
    prekeys = ("list", [("ext", "prekeyA", []), ("ext", "prekeyB", [])])
    signed = ("ext", "signedprekey", [])
    it.effects[:] = []
    w = where(CTRL, "AxolotlControlLayer.flush_keys", None)
    try:
        it.method_call(layer, "flush_keys", [signed, prekeys], {}, {"@module": cls.module, "@owner": cls}, 0, None)
    except _Raise as r:
        ctx.undecided("C14.sent", w, "flush_keys", "abstract execution raised: %s" % r.text)
        return None
    from ..layers import registry_entries
    ents = registry_entries(layer[1].fields.get("iqRegistry"))
    triple = list(ents[-1]) if ents else None
    downs = [e for e in flat_effects(it.effects) if e[0] == "DOWN"]
    if triple is None or len(downs) != 1:
        ctx.violate("C14.sent", w, "flush_keys", "flush_keys must register and send exactly one upload request (registered: %s, sent: %d)" % (triple is not None, len(downs)))
        return None
    ent, okcb, errcb = triple
    marked_before = [e for e in flat_effects(it.effects) if e[0] == "CALL" and e[1].endswith("set_prekeys_as_sent")]
    ctx.check("C14.sent", not marked_before, w, "no marking before the reply", "keys are marked as uploaded before the server confirmed the upload", "nothing marked when the request is sent")
    # success callback
    it.effects[:] = []
    try:
        it.apply(okcb, [("ext", "resultNode", []), ent], {}, {}, 0, None)
        marks = [e for e in flat_effects(it.effects) if e[0] == "CALL" and e[1].endswith("set_prekeys_as_sent")]
        same = len(marks) == 1 and marks[0][2] and marks[0][2][0][0] == "list" and marks[0][2][0][1] is prekeys[1]
        ctx.check("C14.sent", same, w, "success callback", "the success callback must mark exactly the keys of this upload as sent (marks: %s)" % [show(m[2][0]) if m[2] else None for m in marks], "marks the uploaded keys")
    except _Raise as r:
        ctx.violate("C14.sent", w, "success callback", "the success callback raises: %s" % r.text)
    # error callback
    it.effects[:] = []
    raised = None
    try:
        it.apply(errcb, [("ext", "errorNode", []), ent], {}, {}, 0, None) if errcb != C_NONE else None
    except _Raise as r:
        raised = r.text
    marks = [e for e in flat_effects(it.effects) if e[0] == "CALL" and e[1].endswith("set_prekeys_as_sent")]
    ctx.check("C14.sent", not marks and errcb != C_NONE, w, "error callback", "an error reply must not mark the keys as uploaded (and must be handled)", "error reply marks nothing")
    return ent


def rule_flag(ctx):
    model = c13.StoreModel(ctx)
    st = {}
    for (c, name, n, s, params) in model.stmts:
        if c.name == "LitePreKeyStore":
            st.setdefault(name, []).append((s, params, n))
    w = where(PKS, "LitePreKeyStore", None)
    pend = st.get("loadUnsentPendingPreKeys", [])
    upd = st.get("setAsSent", [])
    ins = st.get("storePreKey", [])
    if len(pend) != 1 or len(upd) != 1 or len(ins) != 1:
        ctx.undecided("C14.flag", w, "prekey SQL statements", "expected one statement each in loadUnsentPendingPreKeys / setAsSent / storePreKey")
        return
    ps, pparams, pn = pend[0]
    us, uparams, un = upd[0]
    is_, iparams, inn = ins[0]

    pcls = [c for c in model.classes if c.name == "LitePreKeyStore"][0]
    pev = Evaluator(ctx.repo, pcls.module, pcls)

    def lit(e):
        if isinstance(e, ast.Constant):
            return e.value
        a = alts(pev.ev(e))
        return a[0] if a is not None and len(a) == 1 else None

    def elts_of(params):
        """(bound parameter expressions of one execution, executed once per element of an iterable?)"""
        if isinstance(params, (ast.Tuple, ast.List)):
            return list(params.elts), False
        if isinstance(params, (ast.ListComp, ast.GeneratorExp)) and isinstance(params.elt, (ast.Tuple, ast.List)):
            return list(params.elt.elts), True
        return None, False

    def sql_value(text, bound):
        """value of an SQL operand: literal, NULL, or the next bound parameter"""
        t = text.strip()
        if t == "?":
            return bound.pop(0) if bound else ("?",)
        if t.upper() == "NULL":
            return None
        try:
            return int(t)
        except ValueError:
            pass
        if len(t) >= 2 and t[0] == t[-1] and t[0] in "'\"":
            return t[1:-1]
        return ("?",)

    def pending_selects(flag):
        """truth of the pending predicate for a row whose sent flag is `flag` (SQL three-valued logic: NULL -> not selected)"""
        pe, _m = elts_of(pparams) if pparams is not None else ([], False)
        bound = [lit(e) for e in (pe or [])]
        wrapped = {c_: (f_, d_) for (c_, f_, d_) in getattr(ps, "where_wrapped", [])}
        vals = []
        for (c_, o, r) in ps.where:
            if c_ != "sent_to_server":
                return None
            v = flag
            if c_ in wrapped and wrapped[c_][0] in ("coalesce", "ifnull") and v is None:
                v = sql_value(wrapped[c_][1], [])
            rhs = sql_value(r, bound)
            if isinstance(rhs, tuple) or isinstance(v, tuple):
                return None
            if o == "IS":
                vals.append(v is None if rhs is None else v == rhs)
            elif o == "IS NOT":
                vals.append(v is not None if rhs is None else v != rhs)
            elif v is None or rhs is None:
                vals.append(False)           # comparison with NULL is not true
            elif o == "=":
                vals.append(v == rhs)
            elif o in ("!=", "<>"):
                vals.append(v != rhs)
            else:
                return None
        if not vals:
            return None
        out = vals[0]
        for cn, v in zip(ps.where_connectors, vals[1:]):
            out = (out or v) if cn == "OR" else (out and v)
        return out
    # written value
    sent_val = None
    ue, many = elts_of(uparams) if uparams is not None else ([], False)
    if us.columns == ["sent_to_server"]:
        if us.set_values == ["?"]:
            sent_val = lit(ue[0]) if ue else None
        else:
            sv = sql_value(us.set_values[0], [])
            sent_val = None if isinstance(sv, tuple) else sv
    keyed = [(c_, o) for (c_, o, r) in us.where] == [("prekey_id", "=")]      # exactly the confirmed key, by equality
    p_null, p_zero = pending_selects(None), pending_selects(0)
    p_sent = pending_selects(sent_val) if sent_val is not None else None
    ctx.check("C14.flag", (p_null is True and p_zero is True) if None not in (p_null, p_zero) else None, where(PKS, "LitePreKeyStore.loadUnsentPendingPreKeys", pn.line), ps.text,
              "the pending predicate must select keys whose flag is NULL or the unsent value (selects NULL: %s, 0: %s)" % (p_null, p_zero), "pending selects a flag that is NULL or 0")
    ctx.check("C14.flag", (sent_val is not None and p_sent is False and keyed) if p_sent is not None or sent_val is None else None, where(PKS, "LitePreKeyStore.setAsSent", un.line), us.text + " with %r" % sent_val,
              "marking a key as sent must write a value the pending predicate does not select (writes %r, which pending %s), keyed by prekey_id" % (sent_val, "selects" if p_sent else "does not select"), "writes %r, which the pending predicate excludes" % sent_val)
    ins_flag = None
    if "sent_to_server" in is_.columns:
        ie, _m2 = elts_of(iparams) if iparams is not None else ([], False)
        bound = [lit(e) for e in (ie or [])]
        for col, v in zip(is_.columns, is_.values):
            val = sql_value(v, bound)
            if col == "sent_to_server":
                ins_flag = val
    fresh_pending = pending_selects(ins_flag) if not isinstance(ins_flag, tuple) else None
    ctx.check("C14.flag", fresh_pending, where(PKS, "LitePreKeyStore.storePreKey", inn.line), is_.text,
              "a freshly stored key must be pending: the insert stores the flag %r, which the pending predicate does not select" % (ins_flag,), "new keys are stored pending (flag %r)" % (ins_flag,))
    # ... and once per confirmed id: the statement is executed for each id it was given and binds that id
    sas = model.fns.get((pcls.qname, "setAsSent"), ctx.repo.method(PKS, "LitePreKeyStore", "setAsSent"))
    ps_ = params_of(sas)
    per_id = False
    for l in [l for l in ast.walk(sas) if isinstance(l, ast.For) and ps_ and unparse(l.iter) == ps_[0]]:
        lv = l.target.id if isinstance(l.target, ast.Name) else None
        for c_ in ast.walk(l):
            if isinstance(c_, ast.Call) and isinstance(c_.func, ast.Attribute) and c_.func.attr in ("execute",) and len(c_.args) == 2 and lv and any(isinstance(x, ast.Name) and x.id == lv for x in ast.walk(c_.args[1])):
                per_id = True
    for c_ in ast.walk(sas):
        if isinstance(c_, ast.Call) and isinstance(c_.func, ast.Attribute) and c_.func.attr == "executemany" and len(c_.args) == 2:
            a1 = c_.args[1]
            if isinstance(a1, (ast.ListComp, ast.GeneratorExp)) and len(a1.generators) == 1 and ps_ and unparse(a1.generators[0].iter) == ps_[0] and not a1.generators[0].ifs \
                    and isinstance(a1.generators[0].target, ast.Name) and any(isinstance(x, ast.Name) and x.id == a1.generators[0].target.id for x in ast.walk(a1.elt)):
                per_id = True
    ctx.check("C14.flag", per_id, where(PKS, "LitePreKeyStore.setAsSent", sas.lineno), "one mark per confirmed id",
              "exactly the keys named in the confirmed upload must be marked (one statement per id, bound to that id): a range or aggregate marks keys of other, unconfirmed uploads as sent - they are never offered again", "each id of the batch is marked by its own statement")
    # no store accessor is memoised: a cached record outlives removePreKey / a replaced session
    for k in model.classes:
        for name, fn in sorted(k.methods.items()):
            decs = [unparse(d) for d in fn.decorator_list]
            cached = [d for d in decs if any(t in d for t in ("lru_cache", "cache", "memoize", "cached_property"))]
            ctx.check("C14.flag", not cached, where(k.relpath, "%s.%s" % (k.name, name), fn.lineno), "%s.%s is not memoised" % (k.name, name),
                      "the store method is wrapped in %s: a record it returned once is returned again after the row was deleted - a consumed one-time prekey stays usable for the rest of the process" % (cached[0] if cached else ""), "reads the database every time") if (cached or name.startswith(("load", "contains", "get"))) else None
    # the loop marks every id and commits once after
    seqs = model.sequences([c for c in model.classes if c.name == "LitePreKeyStore"][0], "setAsSent")
    ok = all(s and s[-1][0] == "COMMIT" for s in seqs if any(e[0] == "SQL" for e in s))
    ctx.check("C14.flag", ok, where(PKS, "LitePreKeyStore.setAsSent", None), "marks committed", "the sent marks must be committed", "committed")


def rule_ids(ctx):
    """level_prekeys by abstract execution over (force, number of keys left): keys are generated exactly when forced or
    when fewer than the threshold remain; the new ids start right after the stored maximum; COUNT_GEN_PREKEYS keys are
    asked for; every generated key is stored under its own id and the batch is returned"""
    from ..absint import Interp, Obj, _Raise, C_NONE, show
    repo = ctx.repo
    cls = repo.cls(MGR, "AxolotlManager")
    fn = repo.method(MGR, "AxolotlManager", "level_prekeys")
    w = where(MGR, "AxolotlManager.level_prekeys", fn.lineno)
    ev = Evaluator(repo, cls.module, cls)
    thr = alts(ev.class_const(cls, "THRESHOLD_REGEN"))
    cnt = alts(ev.class_const(cls, "COUNT_GEN_PREKEYS"))
    if not thr or not cnt or not isinstance(thr[0], int):
        ctx.undecided("C14.ids", w, fn, "THRESHOLD_REGEN / COUNT_GEN_PREKEYS are not constants")
        return
    T = thr[0]
    MAXID = 500

    def run(force, left, cell=None, domains=None):
        log = {"gen": [], "stored": []}
        keys = [("ext", "KEY%d" % i, []) for i in range(3)]

        def gen(itp, recv, a, k, env, d, e):
            log["gen"].append(list(a))
            return ("list", list(keys))

        def store(itp, recv, a, k, env, d, e):
            log["stored"].append(list(a))
            return C_NONE
        it = Interp(repo, cell if cell is not None else {}, domains if domains is not None else {}, hooks={"ext:*.generatePreKeys": gen, "method:storePreKey": store,
                                         "method:loadPreKeys": lambda itp, recv, a, k, env, d, e: ("list", [("ext", "old%d" % i, []) for i in range(left)]),
                                         "ext:pks.loadMaxPreKeyId": lambda itp, recv, a, k, env, d, e: ("c", MAXID)})
        st = Obj(None)
        st.fields["preKeyStore"] = ("ext", "pks", [])
        o = Obj(cls)
        o.fields["_store"] = ("obj", st)
        try:
            v = it.method_call(("obj", o), "level_prekeys", [("c", force)], {}, {"@module": cls.module, "@owner": cls}, 0, None)
        except _Raise as r:
            return (log, ("raise", r.text), keys), it
        return (log, v, keys), it
    bad_thr, bad_start, bad_store, unknown = [], [], [], []

    def judge(force, left, log, v, keys):
        want = force or left < T
        if bool(log["gen"]) != want or len(log["gen"]) > 1:
            bad_thr.append("force=%s with %d key(s) left: %s" % (force, left, "generates" if log["gen"] else "generates nothing"))
            return
        if not want:
            if not (v[0] == "list" and not v[1]) and v != ("c", None) and not (v[0] == "c" and not v[1]):
                bad_store.append("nothing generated but %s returned" % show(v)[:30])
            return
        a = log["gen"][0]
        if not (len(a) == 2 and a[0] == ("c", MAXID + 1) and a[1] == ("c", cnt[0])):
            bad_start.append("generatePreKeys(%s) with the stored maximum %d and COUNT_GEN_PREKEYS %s" % (", ".join(show(x) for x in a), MAXID, cnt[0]))
        ok = len(log["stored"]) == len(keys) and all(len(sa) == 2 and sa[1] == k_ and sa[0][0] == "fn" and sa[0][1] == "getId" and sa[0][2][:1] == [k_] for sa, k_ in zip(log["stored"], keys))
        if not ok:
            bad_store.append("%d of %d generated keys stored under their own id" % (sum(1 for sa in log["stored"] if len(sa) == 2 and sa[0][0] == "fn" and sa[0][2][:1] == [sa[1]]), len(keys)))
        if not (v[0] == "list" and v[1] == keys):
            bad_store.append("the generated batch is not what is returned (%s)" % show(v)[:40])
    for force in (False, True):
        for left in sorted({0, max(T - 1, 0), T, T + 1}):
            from ..absint import enumerate_cells, Budget
            try:
                # tests the interpreter cannot decide (log level ...) are explored both ways: every cell must comply
                cells = enumerate_cells(lambda c_, d_: run(force, left, c_, d_), {}, max_cells=64)
            except Budget:
                unknown.append("too many undecided tests (force=%s, %d left)" % (force, left))
                continue
            for _cell, (log, v, keys) in cells:
                judge(force, left, log, v, keys)
    if unknown:
        ctx.undecided("C14.ids", w, fn, "level_prekeys could not be followed: " + unknown[0])
        return
    ctx.check("C14.ids", not bad_start, w, "ids start at stored max + 1", "new prekey ids must start right after the highest stored id (an id offered twice maps to two different keys): " + "; ".join(sorted(set(bad_start))[:2]), "ids start at stored max + 1")
    ctx.check("C14.ids", not bad_thr and T == 10, w, "refill iff forced or fewer than %d left" % T, "keys must be regenerated when fewer than the threshold (10) remain: strict `<`: " + "; ".join(bad_thr[:3]), "refill iff pending < %s (or forced)" % T)
    ctx.check("C14.ids", not bad_store, w, "each generated key stored under its own id", "each generated key must be stored under its own id: " + "; ".join(sorted(set(bad_store))[:2]), "stored under its own id")
    st = repo.method(PKS, "LitePreKeyStore", "loadMaxPreKeyId")
    # max id query: the highest id ever handed out.  Rows of consumed keys are deleted (below), so max(prekey_id) over the
    # stored rows alone is lowered by consuming the highest key and the next batch would offer that id again for a
    # different key: the query must also consult a source deletions do not lower (the AUTOINCREMENT counter of the table)
    st = repo.method(PKS, "LitePreKeyStore", "loadMaxPreKeyId")
    qs = [x.value for x in ast.walk(st) if isinstance(x, ast.Constant) and isinstance(x.value, str) and x.value.strip().upper().startswith("SELECT")]
    has_max = any("max(prekey_id)" in q_.replace(" ", "").lower().replace("max(prekey_id)", "max(prekey_id)") and "prekeys" in q_ for q_ in qs)
    durable = any("sqlite_sequence" in q_ and "prekeys" in q_ for q_ in qs)
    rets = [r for r in ast.walk(st) if isinstance(r, ast.Return) and r.value is not None]
    combined = bool(rets) and all(isinstance(r.value, ast.Call) and isinstance(r.value.func, ast.Name) and r.value.func.id == "max" and len(r.value.args) >= 2 for r in rets)
    k_, tbl = None, None
    autoinc = any(isinstance(x, ast.Constant) and isinstance(x.value, str) and "CREATE TABLE" in x.value.upper() and "prekeys" in x.value and "AUTOINCREMENT" in x.value.upper()
                  for x in ast.walk(repo.module(PKS).tree))
    ex = max_id_scenarios(repo)
    if ex is not None:
        # decided by executing loadMaxPreKeyId against database states (the queries it issues are evaluated): the answer
        # must be the highest id ever handed out, whatever has been consumed since
        low = [x for x in ex if x[3] is not None and x[4] and isinstance(x[3], int) and x[3] < x[2]]
        other = [x for x in ex if x[3] != x[2] and x not in low]
        ctx.check("C14.ids", not other, where(PKS, "LitePreKeyStore.loadMaxPreKeyId", st.lineno), "max(prekey_id) over the stored keys",
                  "the highest id handed out must be answered: " + "; ".join("%s: answers %r, not %r" % (x[0], x[3], x[2]) for x in other[:2]), "the highest id in %d database states" % len(ex))
        ctx.check("C14.ids", not low and autoinc, where(PKS, "LitePreKeyStore.loadMaxPreKeyId", st.lineno), "high-water mark survives consumption",
                  "the next id is derived from the rows still stored only: once the key with the highest id has been consumed (its row is deleted) the next batch starts at that id again - one id is offered to the server for two different keys"
                  + ("" if autoinc else " (the table has no AUTOINCREMENT counter to consult)") + "".join(" [%s: answers %r, highest id handed out %r]" % (x[0], x[3], x[2]) for x in low[:1]),
                  "max(stored ids, AUTOINCREMENT counter): not lowered by deleting consumed keys (%d states with consumed keys)" % len([x for x in ex if x[4]]))
    else:
      ctx.check("C14.ids", has_max, where(PKS, "LitePreKeyStore.loadMaxPreKeyId", st.lineno), "max(prekey_id) over the stored keys", "the highest stored id must be consulted", "max(prekey_id)")
      ctx.check("C14.ids", durable and combined and autoinc, where(PKS, "LitePreKeyStore.loadMaxPreKeyId", st.lineno), "high-water mark survives consumption",
              "the next id is derived from the rows still stored only: once the key with the highest id has been consumed (its row is deleted) the next batch starts at that id again - one id is offered to the server for two different keys",
              "max(stored ids, AUTOINCREMENT counter): not lowered by deleting consumed keys")
    # consumed keys are removed (cannot be used twice): the store's removePreKey deletes by id (C13) and is part of the store API handed to the library
    rm = repo.method(PKS, "LitePreKeyStore", "removePreKey")
    ctx.check("C14.ids", "DELETE FROM prekeys WHERE prekey_id" in unparse(rm), where(PKS, "LitePreKeyStore.removePreKey", rm.lineno), "removePreKey deletes by id", "a consumed key must be deleted by its id", "deleted by id")


def max_id_scenarios(repo):
    """LitePreKeyStore.loadMaxPreKeyId executed against small database states; the SQL it issues is evaluated by sa/sql.query
    -> [(label, db, highest id ever handed out, answer, some key consumed?)] or None when it cannot be followed"""
    from ..absint import Interp, Obj, _Raise, NeedAtom, Budget, DomainGrew
    from .. import sql as _sql
    cls = repo.cls(PKS, "LitePreKeyStore")
    states = [("fresh database", [], None, 0),
              ("keys 1-3 stored", [1, 2, 3], 3, 3),
              ("keys 1-3 handed out, 3 consumed", [1, 2], 3, 3),
              ("keys 1-5 handed out, all consumed", [], 5, 5),
              ("keys 1-6 handed out, 2 and 6 consumed", [1, 3, 4, 5], 6, 6),
              ("keys 1-4 stored, 2 consumed", [1, 3, 4], 4, 4)]
    out = []
    for label, ids, seq, want in states:
        db = {"prekeys": [{"prekey_id": i, "_id": i, "sent_to_server": 1} for i in ids],
              "sqlite_sequence": ([{"name": "prekeys", "seq": seq}] if seq is not None else [])}
        last = [None]
        failed = []

        def execute(itp, recv, a, k, env, d, e):
            if not a or a[0][0] != "c" or not isinstance(a[0][1], str):
                failed.append("query text is not a constant")
                raise _Raise(("ext", "Unfollowed", []), "query not constant")
            ps = []
            if len(a) > 1:
                items = itp.iterate(itp.force(a[1]))
                if items is None or not all(x[0] == "c" for x in items):
                    failed.append("parameters are not constants")
                    raise _Raise(("ext", "Unfollowed", []), "parameters")
                ps = [x[1] for x in items]
            try:
                last[0] = _sql.query(db, a[0][1], ps)
            except _sql.SqlUnsupported as x:
                failed.append(str(x))
                raise _Raise(("ext", "Unfollowed", []), "unsupported SQL")
            return ("ext", "cursor", [])

        def fetchone(itp, recv, a, k, env, d, e):
            rows = last[0] or []
            if not rows:
                return ("c", None)
            r0 = rows[0]
            last[0] = rows[1:]
            return ("c", tuple(r0))

        def fetchall(itp, recv, a, k, env, d, e):
            rows, last[0] = last[0] or [], []
            return ("list", [("c", tuple(r)) for r in rows])
        hooks = {"ext:*.execute": execute, "anymethod:execute": execute, "ext:*.fetchone": fetchone, "anymethod:fetchone": fetchone,
                 "ext:*.fetchall": fetchall, "anymethod:fetchall": fetchall}
        it = Interp(repo, {}, {}, hooks=hooks)
        o = Obj(cls)
        o.fields["dbConn"] = ("ext", "db", [])
        try:
            v = it.method_call(("obj", o), "loadMaxPreKeyId", [], {}, {"@module": cls.module, "@owner": cls}, 0, None)
        except _Raise as r:
            if failed:
                return None
            out.append((label, db, want, "raises %s" % r.text[:50], len(ids) < (seq or 0)))
            continue
        except (NeedAtom, Budget, DomainGrew):
            return None
        v = it.force(v)
        if v[0] != "c":
            return None
        out.append((label, db, want, v[1], len(ids) < (seq or 0)))
    return out


def rule_bundle(ctx, ent):
    w = where(CTRL, "AxolotlControlLayer.flush_keys", None)
    if ent is None or ent[0] != "obj":
        ctx.undecided("C14.bundle", w, "upload entity", "not available from the abstract execution")
        return
    repo = ctx.repo
    # the entity was built by abstract execution of flush_keys(SIGNED, [A, B]) on a layer whose manager is opaque
    # (rule_sent): where each of its fields comes from is read off the values themselves - which opaque inputs a value
    # mentions and which accessor calls lie on the way - whatever helpers, loops or comprehensions computed it
    def leaves(v, out=None):
        out = set() if out is None else out
        if isinstance(v, tuple) and v:
            if v[0] == "ext":
                if v[1].endswith("()"):
                    for x in v[2]:          # the result of a call: built from its arguments
                        leaves(x, out)
                else:
                    out.add(v[1])           # an input object (what was later put INTO it is not where the value comes from)
            elif v[0] in ("fn",):
                for x in v[2]:
                    leaves(x, out)
            elif v[0] == "list":
                for x in v[1]:
                    leaves(x, out)
        return out

    def calls(v, out=None):
        out = set() if out is None else out
        if isinstance(v, tuple) and v:
            if v[0] == "fn" or (v[0] == "ext" and v[1].endswith("()")):
                out.add(v[1].strip(".()"))
                for x in v[2]:
                    calls(x, out)
            elif v[0] == "list":
                for x in v[1]:
                    calls(x, out)
        return out
    INPUTS = {"prekeyA", "prekeyB", "signedprekey", "manager"}
    f = ent[1].fields
    ident = f.get("identityKey")
    ok = ident is not None and leaves(ident) & INPUTS == {"manager"} and {"identity", "getPublicKey"} <= calls(ident)
    ctx.check("C14.bundle", ok, w, "identity key", "the upload must carry the account's own identity public key (found a value built from %s through %s)" % (sorted(leaves(ident) & INPUTS) if ident else None, sorted(calls(ident) - {"adjustArray", "item", "slice"})[:6] if ident else None), "identity <- manager.identity public key")
    stup = f.get("signedPreKey")
    items = stup[1] if stup is not None and stup[0] == "list" and len(stup[1]) == 3 else None
    ok3 = items is not None and all(leaves(x) & INPUTS == {"signedprekey"} for x in items) and "getId" in calls(items[0]) and "getPublicKey" in calls(items[1]) and "getSignature" in calls(items[2]) \
        and "getSignature" not in calls(items[1]) and "getPublicKey" not in calls(items[2])
    ctx.check("C14.bundle", ok3, w, "signed prekey triple", "id, public key and signature of the signed prekey must come from one and the same record (the signature would not verify otherwise); found %s" % ([sorted(leaves(x) & INPUTS) for x in items] if items else show(stup)[:60] if stup else None), "(id, key, signature) of one record")
    reg = f.get("registration")
    ctx.check("C14.bundle", reg is not None and leaves(reg) & INPUTS == {"manager"} and "registration_id" in calls(reg), w, "registration id", "the upload must carry the account's registration id", "registration id <- manager")
    # one-time keys: id -> public key of the same key, every key offered
    dv = f.get("preKeys")
    okd, seen = False, set()
    if dv is not None and dv[0] == "dict" and not (len(dv) > 2 and dv[2]):
        okd = True
        for k_, v_ in dv[1].items():
            if not (isinstance(k_, tuple) and k_ and k_[0] == "dyn" and v_[0] == "list" and len(v_[1]) == 2):
                okd = False
                continue
            kk, vv = v_[1]
            lk, lv = leaves(kk) & INPUTS, leaves(vv) & INPUTS
            if len(lk) != 1 or lk != lv or not lk <= {"prekeyA", "prekeyB"} or "getId" not in calls(kk) or "getPublicKey" not in calls(vv):
                okd = False
            seen |= lk
        okd = okd and seen == {"prekeyA", "prekeyB"}
    ctx.check("C14.bundle", okd, w, "one-time keys map id -> key", "every offered key must appear once, its id mapped to the public key of the same prekey (entries built from %s)" % sorted(seen), "id -> public key of the same key, both keys offered")
    # id / array adjusters: 3-byte big-endian ids
    # evaluated at every byte-length boundary of the id range (the function is piecewise in the byte length of the id)
    import binascii as _ba
    from ..absint import Interp as _I, Obj as _O, _Raise as _R, NeedAtom as _NA, Budget as _B
    adj = repo.method(CTRL, "AxolotlControlLayer", "adjustId")
    ccls = repo.cls(CTRL, "AxolotlControlLayer")
    wadj = where(CTRL, "AxolotlControlLayer.adjustId", adj.lineno)

    def _hex(f):
        def h(itp, recv, a, k, env, d, e):
            if a and a[0][0] == "c" and isinstance(a[0][1], (bytes, bytearray, str)):
                try:
                    return ("c", f(a[0][1]))
                except Exception as x:
                    raise _R(("ext", type(x).__name__, []), "%s: %s" % (type(x).__name__, x))
            return None
        return h
    hooks = {"ext:*.unhexlify": _hex(_ba.unhexlify), "ext:*.hexlify": _hex(_ba.hexlify), "ext:*.a2b_hex": _hex(_ba.a2b_hex)}
    samples = sorted({0, 1, 2, 127, 128, 255, 256, 257, 4095, 4096, 65535, 65536, 65537, 2 ** 20, 2 ** 24 - 1, 2 ** 24, 2 ** 24 + 1, 2 ** 31 - 1, 2 ** 31, 2 ** 32 - 1, 2 ** 32, 0x0A0B0C, 0x01020304})
    bad, unknown = [], None
    for v in samples:
        it = _I(repo, {}, {}, hooks=hooks)
        try:
            r = it.call_function(adj, ccls, ("obj", _O(ccls)), [("c", v)], {}, depth=0)
        except _R as x:
            bad.append("%d raises %s" % (v, x.text[:40]))
            continue
        except (_NA, _B) as x:
            unknown = "id %d: %s" % (v, x)
            break
        if r[0] != "c" or not isinstance(r[1], (bytes, bytearray)):
            unknown = "id %d evaluates to %s" % (v, r[0])
            break
        want = v.to_bytes(max(3, (v.bit_length() + 7) // 8), "big")
        if bytes(r[1]) != want:
            bad.append("%d -> %s, expected %s" % (v, _ba.hexlify(bytes(r[1])).decode(), _ba.hexlify(want).decode()))
    if unknown:
        ctx.undecided("C14.bundle", wadj, "ids encoded as >= 3 big-endian bytes", "adjustId could not be evaluated: " + unknown)
    else:
        ctx.check("C14.bundle", not bad, wadj, "ids encoded as >= 3 big-endian bytes",
                  "ids must be encoded as big-endian bytes padded to at least 3 bytes: " + "; ".join(bad[:3]), "big-endian, at least 3 bytes (%d boundary values)" % len(samples))


def rule_login(ctx):
    """the login choreography around unsent keys, as scenarios abstractly executed on ONE layer object (no attribute of the
    layer is looked at by name): connect with / without unsent keys -> authed (passive or not) -> authed again; first upload
    confirmed -> disconnected -> disconnected again"""
    repo = ctx.repo
    cls = repo.cls(CTRL, "AxolotlControlLayer")
    auth = repo.cls(AUTH, "YowAuthenticationProtocolLayer")
    PASSIVE = alts(Evaluator(repo, auth.module, auth).class_const(auth, "PROP_PASSIVE"))[0]
    net = repo.cls(NET, "YowNetworkLayer")
    EV_DISC = alts(Evaluator(repo, net.module, net).class_const(net, "EVENT_STATE_DISCONNECT"))[0]
    w = lambda m: where(CTRL, "AxolotlControlLayer." + m, None)
    from ..repo import ClassInfo
    K = [("ext", "k1", []), ("ext", "k2", [])]

    def scenario(unsent):
        """-> (it, layer, called, flushed, call(method, args) -> effects or raises)"""
        runner = LayerRunner(repo)
        it = Interp(repo, {}, {}, hooks=runner.hooks())
        it.layer_base = runner.base
        layer = runner.make_layer(it, cls)
        keys = ("list", list(K) if unsent else [])
        stub = ast.parse("class M:\n    def level_prekeys(self, force=False):\n        __called__('level')\n        return []\n    def load_unsent_prekeys(self):\n        return __keys__()\n    def set_prekeys_as_sent(self, keys):\n        __called__('sent')\n    def load_latest_signed_prekey(self, generate=False):\n        return __signed__()\n").body[0]
        stubcls = ClassInfo(cls.module, stub)
        stubcls.bases = []
        stubcls._mro = [stubcls]
        called, flushed = [], []
        it.hooks["builtin:__called__"] = lambda itp, e, args, kwargs, env, depth: (called.append(args[0][1]), C_NONE)[1]
        it.hooks["builtin:__keys__"] = lambda itp, e, args, kwargs, env, depth, keys=keys: ("list", list(keys[1]))
        it.hooks["builtin:__signed__"] = lambda itp, e, args, kwargs, env, depth: ("ext", "signed", [])
        m = Obj(stubcls)
        it.hooks["method:getProp"] = lambda itp, recv, args, kwargs, env, depth, e, m=m: ("obj", _profile_obj(cls, m))

        def flush_hook(itp, recv, args, kwargs, env, depth, e):
            lists = [id(v[1]) for v in layer[1].fields.values() if isinstance(v, tuple) and v and v[0] == "list"]
            flushed.append((args, kwargs, lists))
            return C_NONE
        it.hooks["method:flush_keys"] = flush_hook

        def call(method, args):
            it.effects[:] = []
            it.method_call(layer, method, args, {}, {"@module": cls.module, "@owner": cls}, 0, None)
            return list(flat_effects(it.effects))
        return it, layer, called, flushed, call

    def authed_event(passive):
        evo = _event_obj(repo)
        evo.fields["args"] = ("dict", {"passive": ("c", passive)})
        return ("obj", evo)
    for unsent in (True, False):
        it, layer, called, flushed, call = scenario(unsent)
        try:
            effs = call("on_connected", [("obj", _event_obj(repo))])
        except _Raise as r:
            ctx.undecided("C14.login", w("on_connected"), "on_connected", "abstract execution raised: %s" % r.text)
            continue
        sp = [e for e in effs if e[0] == "SETPROP"]
        forced = [e for e in sp if e[1] == ("c", PASSIVE) and e[2] == ("c", True)]
        ctx.check("C14.login", (len(forced) == 1) == unsent and "level" in called, w("on_connected"), "connected with%s unsent keys" % ("" if unsent else "out"),
                  "on connect the key pool must be levelled and a passive login forced exactly when unsent keys exist (forced=%d, levelled=%s)" % (len(forced), "level" in called), "levelled; passive login %s" % ("forced" if unsent else "not forced"))
        # the same layer is then authenticated: the remembered keys are flushed exactly on a passive login, by copy, once
        for passive in (True, False):
            it, layer, called, flushed, call = scenario(unsent)
            try:
                call("on_connected", [("obj", _event_obj(repo))])
                call("onAuthed", [authed_event(passive)])
                n_first = len(flushed)
                # what the layer still holds once the handler has returned: the list handed to the upload (its result
                # callback keeps it) must by then be the upload's alone - a copy, or the layer has let go of it
                lists_after = [id(v[1]) for v in layer[1].fields.values() if isinstance(v, tuple) and v and v[0] == "list"]
                call("onAuthed", [authed_event(True)])
            except _Raise as r:
                ctx.undecided("C14.login", w("onAuthed"), "onAuthed", "raised %s" % r.text)
                continue
            want = passive and unsent
            okf = (n_first == 1) == want
            detail = ""
            if want and flushed:
                a, kw, lists = flushed[0]
                lst = a[1] if len(a) > 1 else kw.get("prekeys")
                copy_ok = lst is not None and lst[0] == "list" and id(lst[1]) not in lists_after and lst[1] == K
                reboot = kw.get("reboot_connection") == ("c", True) or (len(a) > 2 and a[2] == ("c", True))
                cleared = len(flushed) == 1            # the second passive login of the same layer finds nothing left to flush
                okf = okf and copy_ok and reboot and cleared
                detail = "copy=%s reboot=%s flushed again on the next login=%s" % (copy_ok, reboot, not cleared)
            elif not want and unsent and not passive:
                # not flushed on a non-passive login: the keys are still there for the next passive one
                okf = okf and len(flushed) == 1
                detail = "kept for the next passive login=%s" % (len(flushed) == 1)
            ctx.check("C14.login", okf, w("onAuthed"), "authed passive=%s unsent=%s" % (passive, unsent),
                      "unsent keys must be flushed exactly on a passive login, handed over (a list the layer no longer holds afterwards, contents intact) with the reboot flag, and the layer's list cleared (%d flush call(s) on this login; %s)" % (n_first, detail), "flushed" if want else "nothing flushed")
    # a history in which the store's answer changes between two connects (a key that was pending at the first connect has
    # been consumed - its row is gone - before the second): what is flushed at the next passive login is what the store
    # reports as unsent at THAT connect, each key once; a key remembered from the earlier connect must not be offered again
    it, layer, called, flushed, call = scenario(True)
    answers = [[("ext", "k1", []), ("ext", "k2", []), ("ext", "k3", [])], [("ext", "k1", []), ("ext", "k2", [])]]
    asked = []

    def keys_now(itp, e, args, kwargs, env, depth):
        asked.append(1)
        return ("list", list(answers[min(len(asked), len(answers)) - 1]))
    it.hooks["builtin:__keys__"] = keys_now
    try:
        call("on_connected", [("obj", _event_obj(repo))])
        call("on_disconnected", [("obj", _event_obj(repo))])       # the connection is lost before the login completes
        call("on_connected", [("obj", _event_obj(repo))])
        call("onAuthed", [authed_event(True)])
        offered = None
        if flushed:
            a, kw, _l = flushed[-1]
            lst = a[1] if len(a) > 1 else kw.get("prekeys")
            offered = [x[1] if x[0] == "ext" else "?" for x in lst[1]] if lst is not None and lst[0] == "list" else None
        ctx.check("C14.login", len(flushed) == 1 and offered is not None and sorted(offered) == ["k1", "k2"], w("on_connected"), "a pending key consumed between two connects",
                  "the keys remembered at an earlier connect are offered again although the store no longer lists them: after connect (k1 k2 k3 pending) - connection lost - k3 consumed - connect (k1 k2 pending) - passive login, the upload offers %s; it must offer what the store reports at that connect, each key once" % (offered,),
                  "the upload offers k1, k2 - what the store reports at the latest connect")
    except _Raise as r:
        ctx.undecided("C14.login", w("on_connected"), "a pending key consumed between two connects", "raised %s" % r.text)
    # first upload confirmed -> disconnect requested; the disconnect that follows switches passive off and reconnects, once
    def disc_effects(effs):
        sp = [e for e in effs if e[0] == "SETPROP" and e[1] == ("c", PASSIVE)]
        conn = [e for e in effs if e[0] == "CALL" and e[1].endswith(".connect")]
        return sp, conn
    for reboot in (True, False):
        it, layer, called, flushed, call = scenario(False)
        try:
            call("on_connected", [("obj", _event_obj(repo))])
            effs = call("on_keys_flushed", [("list", []), ("c", reboot)])
            b = [event_name(e[1]) for e in effs if e[0] == "BCAST"]
            sp1, conn1 = disc_effects(call("on_disconnected", [("obj", _event_obj(repo))]))
            sp2, conn2 = disc_effects(call("on_disconnected", [("obj", _event_obj(repo))]))
        except _Raise as r:
            ctx.undecided("C14.login", w("on_keys_flushed"), "upload confirmed -> disconnected", "raised %s" % r.text)
            continue
        if reboot:
            ctx.check("C14.login", b == [EV_DISC] and "sent" in called, w("on_keys_flushed"), "first upload confirmed -> reboot", "after the first upload the keys must be marked and the passive connection dropped (events %s)" % b, "marked; disconnect requested")
            ok = len(conn1) == 1 and len(sp1) == 1 and sp1[0][2] == ("c", False) and not conn2 and not sp2
            ctx.check("C14.login", ok, w("on_disconnected"), "disconnected after the first upload", "after the reboot disconnect the layer must switch passive off and reconnect once; a later disconnect must not reconnect (first: %d reconnect(s), then %d)" % (len(conn1), len(conn2)), "passive off + reconnect, once")
        else:
            ctx.check("C14.login", not b, w("on_keys_flushed"), "later uploads do not reboot", "an upload on a normal connection must not drop the connection", "no disconnect")
            ctx.check("C14.login", not conn1 and not sp1, w("on_disconnected"), "disconnected without a pending reboot", "after the reboot disconnect the layer must switch passive off and reconnect once; otherwise do nothing", "nothing")


def _profile_obj(cls, manager_obj):
    stub = ast.parse("class P:\n    pass\n").body[0]
    from ..repo import ClassInfo
    pc = ClassInfo(cls.module, stub)
    pc.bases = []
    pc._mro = [pc]
    o = Obj(pc)
    o.fields["axolotl_manager"] = ("obj", manager_obj)
    return o


def run(ctx):
    ctx.rule("C14.sent", "sent flag only from the upload's success callback", floor=6)
    ctx.rule("C14.flag", "pending predicate / written value / insert default consistent", floor=4)
    ctx.rule("C14.ids", "ids after the highest id ever handed out; strict threshold", floor=6)
    ctx.rule("C14.bundle", "identity, registration id and one signed-prekey record feed the upload", floor=5)
    ctx.rule("C14.login", "passive login, single flush by copy, reboot", floor=9)
    ctx.assume("python-axolotl consumes one-time keys through the store's removePreKey and verifies signatures itself; histories are not decided")
    ent = ctx.guarded("C14.sent", rule_sent, ctx)
    ctx.guarded("C14.flag", rule_flag, ctx)
    ctx.guarded("C14.ids", rule_ids, ctx)
    ctx.guarded("C14.bundle", rule_bundle, ctx, ent)
    ctx.guarded("C14.login", rule_login, ctx)
    # "a key consumed by a first message cannot be used again" over a crash: the removal (and every other write of the
    # prekey store: the sent flag, new keys) is committed on every path - C13.commit's instances for the prekey stores
    ctx.rule("C14.durable", "prekey store writes (consume, mark sent, store) are committed on every path (C13.commit adopted for the prekey stores)", floor=3)
    from ..report import Ctx as _Ctx, Instance as _Inst
    scratch = _Ctx(ctx.repo, "C13", ctx.tier)
    scratch.rule("C13.commit", "", 0)
    scratch.rule("C13.replace", "", 0)
    try:
        c13.rule_commit_replace(scratch, c13.StoreModel(scratch))
        for inst in scratch.instances:
            if inst.rule == "C13.commit" and "prekeystore" in inst.file:
                ctx.instances.append(_Inst("C14.durable", inst.file, inst.function, inst.construct, inst.verdict, inst.what, inst.line, inst.extra))
    except Exception as x:
        ctx.undecided("C14.durable", where(PKS, "LitePreKeyStore", None), "prekey store writes", "store model not available: %s" % x)
    # the control layer matches the upload's result by iq id only: ids must be unique across entity classes (C08.id), adopted
    from . import c08
    ctx.adopt_from("C08", [(c08.rule_id, ())], {"C08.id": "C14.sent"})
