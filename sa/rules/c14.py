"""C14 - one-time prekeys: bookkeeping shape.

C14.sent    the sent flag is set only from the success callback of the upload request (who-may-call + abstract
            execution of flush_keys and its two callbacks)
C14.flag    pending predicate, written value and insert default are mutually consistent
C14.ids     new ids continue after the stored maximum; the refill threshold is a strict `<`
C14.bundle  identity key, registration id and one signed-prekey record (id, key, signature) feed the upload entity
C14.login   unsent keys force a passive login, are flushed once on a passive authed (by copy, then cleared),
            and the reboot reconnects non-passive
"""
import ast

from ..absint import Interp, Obj, _Raise, C_NONE, show, flat_effects, deps_of
from ..consts import Evaluator, alts
from ..layers import LayerRunner
from ..report import where
from ..repo import unparse, is_self_attr, params_of
from .. import sql
from . import c13
from .c16 import run_handler, event_name, event_arg, _event_obj

CTRL = "yowsup/layers/axolotl/layer_control.py"
MGR = "yowsup/axolotl/manager.py"
PKS = "yowsup/axolotl/store/sqlite/liteprekeystore.py"
AUTH = "yowsup/layers/auth/layer_authentication.py"
NET = "yowsup/layers/network/layer.py"


def call_sites(repo, name):
    out = []
    for m in repo.modules.values():
        if "/demos/" in m.relpath:
            continue
        for c in m.classes.values():
            for fname, fn in c.methods.items():
                for n in ast.walk(fn):
                    if isinstance(n, ast.Call) and isinstance(n.func, ast.Attribute) and n.func.attr == name:
                        out.append((m.relpath, c.name, fname, n))
    return out


def rule_sent(ctx):
    repo = ctx.repo
    chain = [("setAsSent", [(MGR, "AxolotlManager", "set_prekeys_as_sent")]),
             ("set_prekeys_as_sent", [(CTRL, "AxolotlControlLayer", "on_keys_flushed")]),
             ("on_keys_flushed", [(CTRL, "AxolotlControlLayer", "flush_keys")])]
    for name, allowed in chain:
        sites = call_sites(repo, name)
        for (rel, cn, fn, call) in sites:
            repo.consulted.add(rel)
            ok = (rel, cn, fn) in allowed
            ctx.check("C14.sent", ok, where(rel, "%s.%s" % (cn, fn), call.lineno), call,
                      "`%s` may only be called from %s: here keys are marked as uploaded outside the upload's success path" % (name, ", ".join("%s.%s" % (a[1], a[2]) for a in allowed)),
                      "only caller of %s" % name)
        if not sites:
            ctx.violate("C14.sent", where(allowed[0][0], "%s.%s" % (allowed[0][1], allowed[0][2]), None), name, "`%s` is never called: uploaded keys would be offered again forever" % name)
    # abstract execution: flush_keys registers (success -> set_prekeys_as_sent(prekeys), error -> no marking)
    runner = LayerRunner(repo)
    cls = repo.cls(CTRL, "AxolotlControlLayer")
    it = Interp(repo, {}, {}, hooks=runner.hooks())
    it.layer_base = runner.base
    it.pure_depth = 0
    layer = runner.make_layer(it, cls)
    layer[1].fields["_manager"] = ("ext", "manager", [])
    for helper in ("adjustId", "adjustArray"):      # pure byte-formatting helpers: opaque functions of their argument
        it.hooks["method:" + helper] = (lambda hn: (lambda itp, recv, args, kwargs, env, depth, e: ("fn", hn, list(args))))(helper)
    prekeys = ("list", [("ext", "prekeyA", []), ("ext", "prekeyB", [])])
    signed = ("ext", "signedprekey", [])
    it.effects[:] = []
    w = where(CTRL, "AxolotlControlLayer.flush_keys", None)
    try:
        it.method_call(layer, "flush_keys", [signed, prekeys], {}, {"@module": cls.module, "@owner": cls}, 0, None)
    except _Raise as r:
        ctx.undecided("C14.sent", w, "flush_keys", "abstract execution raised: %s" % r.text)
        return None
    reg = layer[1].fields.get("iqRegistry")
    entries = [v for v in reg[1].values()] if reg and reg[0] == "dict" else []
    triple = None
    for v in entries:
        if v[0] == "list" and len(v[1]) == 3:
            triple = v[1]
        elif v[0] == "list" and len(v[1]) == 2 and v[1][1][0] == "list":
            triple = v[1][1][1]
    downs = [e for e in flat_effects(it.effects) if e[0] == "DOWN"]
    if triple is None or len(downs) != 1:
        ctx.violate("C14.sent", w, "flush_keys", "flush_keys must register and send exactly one upload request (registered: %s, sent: %d)" % (triple is not None, len(downs)))
        return None
    ent, okcb, errcb = triple
    marked_before = [e for e in flat_effects(it.effects) if e[0] == "CALL" and e[1].endswith("set_prekeys_as_sent")]
    ctx.check("C14.sent", not marked_before, w, "no marking before the reply", "keys are marked as uploaded before the server confirmed the upload", "nothing marked when the request is sent")
    # success callback
    it.effects[:] = []
    try:
        it.apply(okcb, [("ext", "resultNode", []), ent], {}, {}, 0, None)
        marks = [e for e in flat_effects(it.effects) if e[0] == "CALL" and e[1].endswith("set_prekeys_as_sent")]
        same = len(marks) == 1 and marks[0][2] and marks[0][2][0][0] == "list" and marks[0][2][0][1] is prekeys[1]
        ctx.check("C14.sent", same, w, "success callback", "the success callback must mark exactly the keys of this upload as sent (marks: %s)" % [show(m[2][0]) if m[2] else None for m in marks], "marks the uploaded keys")
    except _Raise as r:
        ctx.violate("C14.sent", w, "success callback", "the success callback raises: %s" % r.text)
    # error callback
    it.effects[:] = []
    raised = None
    try:
        it.apply(errcb, [("ext", "errorNode", []), ent], {}, {}, 0, None) if errcb != C_NONE else None
    except _Raise as r:
        raised = r.text
    marks = [e for e in flat_effects(it.effects) if e[0] == "CALL" and e[1].endswith("set_prekeys_as_sent")]
    ctx.check("C14.sent", not marks and errcb != C_NONE, w, "error callback", "an error reply must not mark the keys as uploaded (and must be handled)", "error reply marks nothing")
    return ent


def rule_flag(ctx):
    model = c13.StoreModel(ctx)
    st = {}
    for (c, name, n, s, params) in model.stmts:
        if c.name == "LitePreKeyStore":
            st.setdefault(name, []).append((s, params, n))
    w = where(PKS, "LitePreKeyStore", None)
    pend = st.get("loadUnsentPendingPreKeys", [])
    upd = st.get("setAsSent", [])
    ins = st.get("storePreKey", [])
    if len(pend) != 1 or len(upd) != 1 or len(ins) != 1:
        ctx.undecided("C14.flag", w, "prekey SQL statements", "expected one statement each in loadUnsentPendingPreKeys / setAsSent / storePreKey")
        return
    ps, pparams, pn = pend[0]
    us, uparams, un = upd[0]
    is_, iparams, inn = ins[0]

    def lit(e):
        return e.value if isinstance(e, ast.Constant) else None
    # pending predicate: sent_to_server IS NULL OR sent_to_server = <unsent value>
    conds = [(c_, o, r) for (c_, o, r) in ps.where]
    null_ok = any(c_ == "sent_to_server" and o == "IS" and r.upper() == "NULL" for (c_, o, r) in conds)
    eq = [r for (c_, o, r) in conds if c_ == "sent_to_server" and o == "="]
    unsent_val = lit(pparams.elts[0]) if eq == ["?"] and isinstance(pparams, (ast.Tuple, ast.List)) and pparams.elts else (int(eq[0]) if eq and eq[0].isdigit() else None)
    or_ok = ps.where_connectors == ["OR"]
    # written value
    sent_val = None
    if us.columns == ["sent_to_server"] and isinstance(uparams, (ast.Tuple, ast.List)) and uparams.elts:
        sent_val = lit(uparams.elts[0]) if us.set_values == ["?"] else (int(us.set_values[0]) if us.set_values[0].isdigit() else None)
    keyed = [(c_, o) for (c_, o, r) in us.where] == [("prekey_id", "=")]      # exactly the confirmed key, by equality
    ctx.check("C14.flag", null_ok and or_ok and unsent_val is not None, where(PKS, "LitePreKeyStore.loadUnsentPendingPreKeys", pn.line), ps.text,
              "the pending predicate must select keys whose flag is NULL or the unsent value", "pending = flag IS NULL OR flag = %r" % unsent_val)
    ctx.check("C14.flag", sent_val is not None and sent_val != unsent_val and bool(sent_val) and keyed, where(PKS, "LitePreKeyStore.setAsSent", un.line), us.text + " with %r" % sent_val,
              "marking a key as sent must write a value the pending predicate does not select (writes %r, pending selects NULL or %r), keyed by prekey_id" % (sent_val, unsent_val), "writes %r, which the pending predicate excludes" % sent_val)
    ctx.check("C14.flag", "sent_to_server" not in is_.columns, where(PKS, "LitePreKeyStore.storePreKey", inn.line), is_.text,
              "a freshly stored key must be pending: the insert must leave the sent flag unset", "new keys are stored with the flag unset (NULL = pending)")
    # ... and once per confirmed id: the statement runs inside a loop over the ids it was given and binds the loop variable
    sas = ctx.repo.method(PKS, "LitePreKeyStore", "setAsSent")
    ps_ = params_of(sas)
    loops = [l for l in ast.walk(sas) if isinstance(l, ast.For) and ps_ and unparse(l.iter) == ps_[0]]
    per_id = False
    for l in loops:
        lv = l.target.id if isinstance(l.target, ast.Name) else None
        for c_ in ast.walk(l):
            if isinstance(c_, ast.Call) and isinstance(c_.func, ast.Attribute) and c_.func.attr in ("execute",) and len(c_.args) == 2 and lv and any(isinstance(x, ast.Name) and x.id == lv for x in ast.walk(c_.args[1])):
                per_id = True
        for c_ in ast.walk(sas):
            if isinstance(c_, ast.Call) and isinstance(c_.func, ast.Attribute) and c_.func.attr == "executemany":
                per_id = True
    many = any(isinstance(c_, ast.Call) and isinstance(c_.func, ast.Attribute) and c_.func.attr == "executemany" for c_ in ast.walk(sas))
    ctx.check("C14.flag", per_id or many, where(PKS, "LitePreKeyStore.setAsSent", sas.lineno), "one mark per confirmed id",
              "exactly the keys named in the confirmed upload must be marked (one statement per id, bound to that id): a range or aggregate marks keys of other, unconfirmed uploads as sent - they are never offered again", "each id of the batch is marked by its own statement")
    # no store accessor is memoised: a cached record outlives removePreKey / a replaced session
    for k in model.classes:
        for name, fn in sorted(k.methods.items()):
            decs = [unparse(d) for d in fn.decorator_list]
            cached = [d for d in decs if any(t in d for t in ("lru_cache", "cache", "memoize", "cached_property"))]
            ctx.check("C14.flag", not cached, where(k.relpath, "%s.%s" % (k.name, name), fn.lineno), "%s.%s is not memoised" % (k.name, name),
                      "the store method is wrapped in %s: a record it returned once is returned again after the row was deleted - a consumed one-time prekey stays usable for the rest of the process" % (cached[0] if cached else ""), "reads the database every time") if (cached or name.startswith(("load", "contains", "get"))) else None
    # the loop marks every id and commits once after
    seqs = model.sequences([c for c in model.classes if c.name == "LitePreKeyStore"][0], "setAsSent")
    ok = all(s and s[-1][0] == "COMMIT" for s in seqs if any(e[0] == "SQL" for e in s))
    ctx.check("C14.flag", ok, where(PKS, "LitePreKeyStore.setAsSent", None), "marks committed", "the sent marks must be committed", "committed")


def rule_ids(ctx):
    repo = ctx.repo
    cls = repo.cls(MGR, "AxolotlManager")
    fn = repo.method(MGR, "AxolotlManager", "level_prekeys")
    w = where(MGR, "AxolotlManager.level_prekeys", fn.lineno)
    ev = Evaluator(repo, cls.module, cls)
    gen = [c for c in ast.walk(fn) if isinstance(c, ast.Call) and unparse(c.func).endswith("generatePreKeys")]
    maxv = None
    for n in ast.walk(fn):
        if isinstance(n, ast.Assign) and isinstance(n.value, ast.Call) and unparse(n.value.func).endswith("loadMaxPreKeyId") and isinstance(n.targets[0], ast.Name):
            maxv = n.targets[0].id
    ok = len(gen) == 1 and maxv is not None and len(gen[0].args) == 2 and unparse(gen[0].args[0]).replace(" ", "") in ("%s+1" % maxv, "1+%s" % maxv)
    ctx.check("C14.ids", ok, w, gen[0] if gen else fn, "new prekey ids must start right after the highest stored id (an id offered twice maps to two different keys)", "ids start at stored max + 1")
    tests = [n for n in ast.walk(fn) if isinstance(n, ast.If) and "THRESHOLD_REGEN" in unparse(n.test)]
    okt = False
    if len(tests) == 1:
        for c in ast.walk(tests[0].test):
            if isinstance(c, ast.Compare) and "THRESHOLD_REGEN" in unparse(c):
                okt = isinstance(c.ops[0], ast.Lt) and "THRESHOLD_REGEN" in unparse(c.comparators[0])
    thr = alts(ev.class_const(cls, "THRESHOLD_REGEN"))
    ctx.check("C14.ids", okt and thr == [10], w, tests[0] if tests else fn, "keys must be regenerated when fewer than the threshold (10) remain: strict `<`", "refill iff pending < %s (or forced)" % (thr[0] if thr else "?"))
    # every generated key is stored under its own id
    stores = [c for c in ast.walk(fn) if isinstance(c, ast.Call) and unparse(c.func).endswith("storePreKey")]
    oks = len(stores) == 1 and len(stores[0].args) == 2 and unparse(stores[0].args[0]) == unparse(stores[0].args[1]) + ".getId()"
    ctx.check("C14.ids", oks, w, stores[0] if stores else fn, "each generated key must be stored under its own id", "stored under its own id")
    # max id query: the highest id ever handed out.  Rows of consumed keys are deleted (below), so max(prekey_id) over the
    # stored rows alone is lowered by consuming the highest key and the next batch would offer that id again for a
    # different key: the query must also consult a source deletions do not lower (the AUTOINCREMENT counter of the table)
    st = repo.method(PKS, "LitePreKeyStore", "loadMaxPreKeyId")
    qs = [x.value for x in ast.walk(st) if isinstance(x, ast.Constant) and isinstance(x.value, str) and x.value.strip().upper().startswith("SELECT")]
    has_max = any("max(prekey_id)" in q_.replace(" ", "").lower().replace("max(prekey_id)", "max(prekey_id)") and "prekeys" in q_ for q_ in qs)
    durable = any("sqlite_sequence" in q_ and "prekeys" in q_ for q_ in qs)
    rets = [r for r in ast.walk(st) if isinstance(r, ast.Return) and r.value is not None]
    combined = bool(rets) and all(isinstance(r.value, ast.Call) and isinstance(r.value.func, ast.Name) and r.value.func.id == "max" and len(r.value.args) >= 2 for r in rets)
    k_, tbl = None, None
    autoinc = any(isinstance(x, ast.Constant) and isinstance(x.value, str) and "CREATE TABLE" in x.value.upper() and "prekeys" in x.value and "AUTOINCREMENT" in x.value.upper()
                  for x in ast.walk(repo.module(PKS).tree))
    ctx.check("C14.ids", has_max, where(PKS, "LitePreKeyStore.loadMaxPreKeyId", st.lineno), "max(prekey_id) over the stored keys", "the highest stored id must be consulted", "max(prekey_id)")
    ctx.check("C14.ids", durable and combined and autoinc, where(PKS, "LitePreKeyStore.loadMaxPreKeyId", st.lineno), "high-water mark survives consumption",
              "the next id is derived from the rows still stored only: once the key with the highest id has been consumed (its row is deleted) the next batch starts at that id again - one id is offered to the server for two different keys",
              "max(stored ids, AUTOINCREMENT counter): not lowered by deleting consumed keys")
    # consumed keys are removed (cannot be used twice): the store's removePreKey deletes by id (C13) and is part of the store API handed to the library
    rm = repo.method(PKS, "LitePreKeyStore", "removePreKey")
    ctx.check("C14.ids", "DELETE FROM prekeys WHERE prekey_id" in unparse(rm), where(PKS, "LitePreKeyStore.removePreKey", rm.lineno), "removePreKey deletes by id", "a consumed key must be deleted by its id", "deleted by id")


def rule_bundle(ctx, ent):
    w = where(CTRL, "AxolotlControlLayer.flush_keys", None)
    if ent is None or ent[0] != "obj":
        ctx.undecided("C14.bundle", w, "upload entity", "not available from the abstract execution")
        return
    repo = ctx.repo
    cls = ent[1].cls
    k, init = repo.find_method(cls, "__init__")
    ps = params_of(init)
    # re-evaluate the constructor arguments symbolically from the AST of flush_keys
    fn = repo.method(CTRL, "AxolotlControlLayer", "flush_keys")
    P = params_of(fn)
    signed, prekeys = P[0], P[1]
    call = [c for c in ast.walk(fn) if isinstance(c, ast.Call) and unparse(c.func) == cls.name]
    if len(call) != 1:
        ctx.undecided("C14.bundle", w, fn, "constructor call of %s not found" % cls.name)
        return
    call = call[0]
    args = {p: a for p, a in zip(ps, call.args)}
    args.update({kw.arg: kw.value for kw in call.keywords})
    locals_ = {n.targets[0].id: n.value for n in ast.walk(fn) if isinstance(n, ast.Assign) and isinstance(n.targets[0], ast.Name)}

    def src(e):
        e = locals_.get(e.id, e) if isinstance(e, ast.Name) else e
        return unparse(e)
    ident = src(args.get(ps[0]))
    ctx.check("C14.bundle", "self.manager.identity" in ident and "getPublicKey" in ident, w, "identity key: " + ident[:80], "the upload must carry the account's own identity public key", "identity <- manager.identity public key")
    stup = args.get(ps[1])
    stup = locals_.get(stup.id, stup) if isinstance(stup, ast.Name) else stup
    ok3 = False
    if isinstance(stup, ast.Tuple) and len(stup.elts) == 3:
        t = [unparse(e) for e in stup.elts]
        ok3 = ("%s.getId()" % signed) in t[0] and ("%s.getKeyPair()" % signed) in t[1] and "getPublicKey" in t[1] and ("%s.getSignature()" % signed) in t[2]
    ctx.check("C14.bundle", ok3, w, "signed prekey triple: " + (unparse(stup)[:120] if stup is not None else "?"),
              "id, public key and signature of the signed prekey must come from one and the same record (the signature would not verify otherwise)", "(id, key, signature) of one record")
    reg = src(args.get(ps[4])) if len(ps) > 4 and ps[4] in args else ""
    ctx.check("C14.bundle", "self.manager.registration_id" in reg, w, "registration id: " + reg[:60], "the upload must carry the account's registration id", "registration id <- manager")
    # one-time keys: id -> public key of the same key
    dv = args.get(ps[2])
    dname = dv.id if isinstance(dv, ast.Name) else None
    okd = False
    for n in ast.walk(fn):
        if isinstance(n, ast.For) and unparse(n.iter) == prekeys and isinstance(n.target, ast.Name):
            x = n.target.id
            body = "\n".join(unparse(s) for s in n.body)
            kp = [s for s in n.body if isinstance(s, ast.Assign) and isinstance(s.targets[0], ast.Name) and unparse(s.value) == "%s.getKeyPair()" % x]
            kpn = kp[0].targets[0].id if kp else None
            for s in n.body:
                if isinstance(s, ast.Assign) and isinstance(s.targets[0], ast.Subscript) and unparse(s.targets[0].value) == dname:
                    import re
                    okd = bool(re.search(r"(?<![\w.])%s\.getId\(\)" % re.escape(x), unparse(s.targets[0].slice))) and ((kpn and ("%s.getPublicKey()" % kpn) in unparse(s.value)) or ("%s.getKeyPair().getPublicKey()" % x) in unparse(s.value))
    ctx.check("C14.bundle", okd, w, "one-time keys map id -> key", "every offered id must map to the public key of the same prekey", "id -> public key of the same key")
    # id / array adjusters: 3-byte big-endian ids
    adj = repo.method(CTRL, "AxolotlControlLayer", "adjustId")
    srca = unparse(adj)
    ctx.check("C14.bundle", "format(_id, 'x')" in srca and "zfill" in srca and "6" in srca and "unhexlify" in srca, where(CTRL, "AxolotlControlLayer.adjustId", adj.lineno), "ids encoded as >= 3 big-endian bytes",
              "ids must be encoded as big-endian bytes padded to at least 3 bytes", "hex, zero-filled to >= 6 digits, unhexlified")


def rule_login(ctx):
    repo = ctx.repo
    cls = repo.cls(CTRL, "AxolotlControlLayer")
    auth = repo.cls(AUTH, "YowAuthenticationProtocolLayer")
    PASSIVE = alts(Evaluator(repo, auth.module, auth).class_const(auth, "PROP_PASSIVE"))[0]
    net = repo.cls(NET, "YowNetworkLayer")
    EV_DISC = alts(Evaluator(repo, net.module, net).class_const(net, "EVENT_STATE_DISCONNECT"))[0]
    w = lambda m: where(CTRL, "AxolotlControlLayer." + m, None)
    profile = ("ext", "profile", [])
    # on_connected with / without unsent keys
    for unsent in (True, False):
        def hk(itp, recv, args, kwargs, env, depth, e, unsent=unsent):
            return None
        fields = {"_manager": C_NONE, "_unsent_prekeys": ("list", [])}
        runner = LayerRunner(repo)
        it = Interp(repo, {}, {}, hooks=runner.hooks())
        it.layer_base = runner.base
        layer = runner.make_layer(it, cls)
        layer[1].fields["_unsent_prekeys"] = ("list", [])
        mgr = Obj(None)
        it.hooks["method:getProp"] = lambda itp, recv, args, kwargs, env, depth, e: ("ext", "profile", [])

        def ext_call(itp, recv, name, args):
            return None
        # the manager is opaque; its load_unsent_prekeys result is what we control
        keys = ("list", [("ext", "k1", []), ("ext", "k2", [])] if unsent else [])
        it.hooks["builtin:__unsent__"] = None
        it.effects[:] = []
        # run: replace manager by an abstract object whose methods are interpreted from a tiny stub
        stub = ast.parse("class M:\n    def level_prekeys(self, force=False):\n        __called__('level')\n        return []\n    def load_unsent_prekeys(self):\n        return __keys__()\n").body[0]
        from ..repo import ClassInfo
        stubcls = ClassInfo(cls.module, stub)
        stubcls.bases = []
        stubcls._mro = [stubcls]
        called = []
        it.hooks["builtin:__called__"] = lambda itp, e, args, kwargs, env, depth: (called.append(args[0][1]), C_NONE)[1]
        it.hooks["builtin:__keys__"] = lambda itp, e, args, kwargs, env, depth, keys=keys: keys
        m = Obj(stubcls)
        # on_connected loads the manager from the profile: hook the property by presetting after the super call is not possible,
        # so interpret AxolotlBaseLayer.on_connected's effect directly: the profile's axolotl_manager is our stub
        it.hooks["method:getProp"] = lambda itp, recv, args, kwargs, env, depth, e, m=m: ("obj", _profile_obj(cls, m))
        try:
            it.method_call(layer, "on_connected", [("obj", _event_obj(repo))], {}, {"@module": cls.module, "@owner": cls}, 0, None)
        except _Raise as r:
            ctx.undecided("C14.login", w("on_connected"), "on_connected", "abstract execution raised: %s" % r.text)
            continue
        sp = [e for e in flat_effects(it.effects) if e[0] == "SETPROP"]
        forced = [e for e in sp if e[1] == ("c", PASSIVE) and e[2] == ("c", True)]
        un = layer[1].fields.get("_unsent_prekeys")
        ctx.check("C14.login", (len(forced) == 1) == unsent and "level" in called and un[0] == "list" and len(un[1]) == (2 if unsent else 0), w("on_connected"), "connected with%s unsent keys" % ("" if unsent else "out"),
                  "on connect the key pool must be levelled, unsent keys remembered, and a passive login forced exactly when unsent keys exist (forced=%d, remembered=%s)" % (len(forced), show(un)), "levelled; passive login %s" % ("forced" if unsent else "not forced"))
    # onAuthed: flush once by copy when passive and unsent
    for passive in (True, False):
        for unsent in (True, False):
            keys = [("ext", "k1", []), ("ext", "k2", [])] if unsent else []
            evo = _event_obj(repo)
            evo.fields["args"] = ("dict", {"passive": ("c", passive)})
            flushed = []

            def flush_hook(itp, recv, args, kwargs, env, depth, e, flushed=flushed):
                flushed.append((args, kwargs))
                return C_NONE
            runner = LayerRunner(repo)
            it = Interp(repo, {}, {}, hooks=runner.hooks())
            it.layer_base = runner.base
            it.hooks["method:flush_keys"] = flush_hook
            layer = runner.make_layer(it, cls)
            store = ("list", list(keys))
            layer[1].fields["_unsent_prekeys"] = store
            layer[1].fields["_manager"] = ("ext", "manager", [])
            try:
                it.method_call(layer, "onAuthed", [("obj", evo)], {}, {"@module": cls.module, "@owner": cls}, 0, None)
            except _Raise as r:
                ctx.undecided("C14.login", w("onAuthed"), "onAuthed", "raised %s" % r.text)
                continue
            want = passive and unsent
            okf = (len(flushed) == 1) == want
            detail = ""
            if want and flushed:
                a, kw = flushed[0]
                lst = a[1] if len(a) > 1 else None
                copy_ok = lst is not None and lst[0] == "list" and lst[1] is not store[1] and len(lst[1]) == 2
                reboot = kw.get("reboot_connection") == ("c", True) or (len(a) > 2 and a[2] == ("c", True))
                after = layer[1].fields.get("_unsent_prekeys")
                cleared = after[0] == "list" and len(after[1]) == 0
                okf = okf and copy_ok and reboot and cleared
                detail = "copy=%s reboot=%s cleared=%s" % (copy_ok, reboot, cleared)
            ctx.check("C14.login", okf, w("onAuthed"), "authed passive=%s unsent=%s" % (passive, unsent),
                      "unsent keys must be flushed exactly on a passive login, handed over by copy with the reboot flag, and the list cleared (%d flush call(s) %s)" % (len(flushed), detail), "flushed" if want else "nothing flushed")
    # on_keys_flushed with reboot: flag + disconnect request; on_disconnected with flag: passive off + connect
    r, it = run_handler(repo, CTRL, "AxolotlControlLayer", "on_keys_flushed", [("list", []), ("c", True)], fields={"_manager": ("ext", "manager", [])})
    b = [event_name(e[1]) for e in r["effects"] if e[0] == "BCAST"]
    ctx.check("C14.login", b == [EV_DISC] and r["layer"][1].fields.get("_reboot_connection") == ("c", True), w("on_keys_flushed"), "first upload confirmed -> reboot", "after the first upload the passive connection must be dropped and a reboot remembered", "reboot flagged, disconnect requested")
    r, it = run_handler(repo, CTRL, "AxolotlControlLayer", "on_keys_flushed", [("list", []), ("c", False)], fields={"_manager": ("ext", "manager", [])})
    ctx.check("C14.login", not [e for e in r["effects"] if e[0] == "BCAST"], w("on_keys_flushed"), "later uploads do not reboot", "an upload on a normal connection must not drop the connection", "no disconnect")
    for flag in (True, False):
        r, it = run_handler(repo, CTRL, "AxolotlControlLayer", "on_disconnected", [("obj", _event_obj(repo))], fields={"_manager": ("ext", "manager", []), "_reboot_connection": ("c", flag)})
        sp = [e for e in r["effects"] if e[0] == "SETPROP" and e[1] == ("c", PASSIVE)]
        conn = [e for e in r["effects"] if e[0] == "CALL" and e[1].endswith(".connect")]
        ok = ((len(conn) == 1 and len(sp) == 1 and sp[0][2] == ("c", False)) if flag else (not conn and not sp)) and r["layer"][1].fields.get("_reboot_connection") == ("c", False)
        ctx.check("C14.login", ok, w("on_disconnected"), "disconnected with reboot flag %s" % flag, "after the reboot disconnect the layer must switch passive off and reconnect once; otherwise do nothing", "passive off + reconnect" if flag else "nothing")


def _profile_obj(cls, manager_obj):
    stub = ast.parse("class P:\n    pass\n").body[0]
    from ..repo import ClassInfo
    pc = ClassInfo(cls.module, stub)
    pc.bases = []
    pc._mro = [pc]
    o = Obj(pc)
    o.fields["axolotl_manager"] = ("obj", manager_obj)
    return o


def run(ctx):
    ctx.rule("C14.sent", "sent flag only from the upload's success callback", floor=6)
    ctx.rule("C14.flag", "pending predicate / written value / insert default consistent", floor=4)
    ctx.rule("C14.ids", "ids after the highest id ever handed out; strict threshold", floor=6)
    ctx.rule("C14.bundle", "identity, registration id and one signed-prekey record feed the upload", floor=5)
    ctx.rule("C14.login", "passive login, single flush by copy, reboot", floor=9)
    ctx.assume("python-axolotl consumes one-time keys through the store's removePreKey and verifies signatures itself; histories are not decided")
    ent = ctx.guarded("C14.sent", rule_sent, ctx)
    ctx.guarded("C14.flag", rule_flag, ctx)
    ctx.guarded("C14.ids", rule_ids, ctx)
    ctx.guarded("C14.bundle", rule_bundle, ctx, ent)
    ctx.guarded("C14.login", rule_login, ctx)
    # the control layer matches the upload's result by iq id only: ids must be unique across entity classes (C08.id), adopted
    from . import c08
    ctx.adopt_from("C08", [(c08.rule_id, ())], {"C08.id": "C14.sent"})
