"""C11 - concurrent senders never corrupt the encrypted stream (lock-set argument).

C11.hoh      in YowLayer.toLower the call into the lower layer lies inside the critical section of the layer's lock
C11.only     the lower link's send is invoked from toLower only; no layer of the default stack overrides toLower
C11.adj      coder / noise / segments / network are adjacent in that order in all 16 default compositions
C11.enc      the cipher step is reachable only through YowNoiseLayer.send; its segment is written synchronously
C11.frame    both writes of a frame happen in one invocation of the segments layer's send
C11.once     each core layer's send forwards exactly once per call
C11.disp     the asyncore dispatcher's out_buffer is only touched under one per-instance re-entrant lock (sender thread vs loop thread)
C11.threads  thread entry points reach the wire only through the locked chain
"""
import ast
import itertools

from ..absint import flat_effects, enumerate_cells, show
from ..cfg import CFG, fmt_path, walk_no_nested
from ..deps import node_exprs
from ..report import where
from ..repo import unparse, is_self_attr, params_of
from ..stackmodel import default_layers, flatten, FLAGS
from .c16 import run_handler

LAYERS = "yowsup/layers/__init__.py"
NOISE = "yowsup/layers/noise/layer.py"
SEG = "yowsup/layers/noise/layer_noise_segments.py"
CODER = "yowsup/layers/coder/layer.py"
NET = "yowsup/layers/network/layer.py"


def lock_span(g, lockname):
    """(acquire node, release nodes) for `self.<lockname>` in a CFG: acquire()/release() or `with`"""
    acq, rel = [], []
    for n in g.live:
        if n.kind == "with_enter" and any(unparse(i.context_expr) == "self." + lockname for i in n.stmt.items):
            acq.append(n)
        elif n.kind == "with_exit" and any(unparse(i.context_expr) == "self." + lockname for i in n.stmt.items):
            rel.append(n)
        elif n.kind == "stmt" and n.stmt is not None:
            t = unparse(n.stmt)
            if t == "self.%s.acquire()" % lockname:
                acq.append(n)
            elif t == "self.%s.release()" % lockname:
                rel.append(n)
    return acq, rel


def lock_balance(effects, lock):
    """number of times `lock` is held after the given effects: acquire()/__enter__ minus release()/__exit__"""
    held = 0
    for e in effects:
        if e[0] == "CALL" and len(e) > 3 and e[3][:2] == lock[:2] and e[3][2] is lock[2]:
            if e[1].endswith(".acquire") or e[1].endswith(".__enter__"):
                held += 1
            elif e[1].endswith(".release") or e[1].endswith(".__exit__"):
                held -= 1
        elif e[0] == "ENTER" and e[1][:2] == lock[:2] and e[1][2] is lock[2]:
            held += 1
        elif e[0] == "EXIT" and e[1][:2] == lock[:2] and e[1][2] is lock[2]:
            held -= 1
    return held


def run_tolower(repo, lower_raises=False, with_lower=True, cell=None, method="toLower", nargs=1):
    """abstract execution of YowLayer.toLower on a layer built by the real constructor, with a lower neighbour whose send
    is observed -> (lock held when lower.send runs (list), held at the end, sends, raised, lock value)"""
    from ..absint import Interp, Obj, _Raise, C_NONE, flat_effects
    base = repo.cls(LAYERS, "YowLayer")
    held_at_send = []
    lower = ("ext", "lower", [])

    def send(itp, recv, a, k, env, d, e):
        held_at_send.append((list(flat_effects(itp.effects)), list(a)))
        if lower_raises:
            raise _Raise(("ext", "LowerError", []), "the lower layer raises")
        return C_NONE
    it = Interp(repo, cell if cell is not None else {}, {}, hooks={"ext:lower.send": send})
    o = Obj(base)
    kk, init = repo.find_method(base, "__init__")
    it.call_function(init, kk, ("obj", o), [], {}, depth=0)
    # the layer's lock: whatever lock object the constructor bound to the instance (any attribute name) that toLower takes
    locks = [v for k_, v in o.fields.items() if isinstance(v, tuple) and v[0] == "ext" and v[1].split(".")[-1] in ("Lock()", "RLock()", "Semaphore()", "BoundedSemaphore()", "Condition()")]
    o.fields["_YowLayer__lower"] = lower if with_lower else C_NONE
    it.effects[:] = []
    raised = None
    try:
        it.method_call(("obj", o), method, [("ext", "DATA", [])] * nargs, {}, {"@module": base.module, "@owner": base}, 0, None)
    except _Raise as r:
        raised = r.text
    effs = list(flat_effects(it.effects))
    taken = [e[3] for e in effs if e[0] == "CALL" and len(e) > 3 and e[1].endswith(".acquire")] + [e[1] for e in effs if e[0] == "ENTER"]
    lock = [v for v in locks if any(t is v for t in taken)] or ([locks[0]] if len(locks) == 1 and not taken else [])
    lk = lock[0] if lock else None
    return ([(lock_balance(e, lk) if lk is not None else None, a) for e, a in held_at_send], lock_balance(effs, lk) if lk is not None else None, raised, lk)


def rule_hoh(ctx):
    """hand over hand: YowLayer.toLower, abstractly executed on a layer built by the real constructor: the lower layer's
    send runs exactly once, with the data, while the layer's own lock is held; the lock is free again when toLower
    returns and when the lower layer raises; without a lower layer nothing is sent; the lock is a per-instance mutex"""
    repo = ctx.repo
    fn = repo.method(LAYERS, "YowLayer", "toLower")
    w = where(LAYERS, "YowLayer.toLower", fn.lineno)
    from ..absint import NeedAtom
    try:
        ok_s, end_s, r_s, lk = run_tolower(repo)
        ok_f, end_f, r_f, _l = run_tolower(repo, lower_raises=True)
        ok_n, end_n, r_n, _l2 = run_tolower(repo, with_lower=False)
    except NeedAtom as x:
        if x.atom[0] == "F" and x.atom[1].startswith("trylock("):
            # the lock is only *tried*: in the path class where the attempt fails the send runs without it
            try:
                ok_s, end_s, r_s, lk = run_tolower(repo, cell={x.atom: False})
            except NeedAtom:
                ok_s, lk = None, None
            if ok_s is not None:
                ctx.check("C11.hoh", bool(ok_s) and all(h[0] == 1 for h in ok_s), w, "lower.send(data) inside the critical section of self.lock",
                          "the lower layer's send runs outside the critical section of the layer's lock (two senders can interleave their frames): the lock is only tried (%s), and when another sender holds it the send goes ahead without it" % x.atom[1][8:-1],
                          "lower.send(data) inside the critical section")
                return
        ctx.undecided("C11.hoh", w, fn, "toLower depends on a test the interpreter cannot decide: %s" % (x.atom,))
        return
    if lk is None or lk[0] != "ext":
        # toLower takes no lock object that the constructor bound to the instance: either nothing is bound (the attribute
        # it names does not exist: AttributeError on every send) or the lock is shared / not a lock
        ctx.violate("C11.hoh", w, "lower.send(data) inside the critical section of self.lock",
                    "toLower does not take a lock that the constructor binds to the instance (no instance attribute holds a threading.Lock that toLower acquires): the hand-over-hand discipline has no per-layer mutex - the attribute it names is missing (AttributeError on every send) or is not this layer's own lock")
        return
    inside = len(ok_s) == 1 and ok_s[0][0] == 1 and ok_s[0][1] == [("ext", "DATA", [])] and r_s is None
    ctx.check("C11.hoh", inside and not ok_n and r_n is None, w, "lower.send(data) inside the critical section of self.lock",
              "the lower layer's send runs outside the critical section of the layer's lock (two senders can interleave their frames), or not exactly once with the data: lock held %s time(s) at %d send(s); without a lower layer %d send(s)" % ([x[0] for x in ok_s], len(ok_s), len(ok_n)),
              "lower.send(data) once, inside the critical section of self.lock")
    ctx.check("C11.hoh", end_s == 0 and end_f == 0 and end_n == 0 and r_f is not None, w, "lock free again on return and when the lower layer raises",
              "toLower must take the layer's lock, call the lower layer's send once and release: afterwards the lock is held %s time(s) (normal), %s (lower layer raised%s), %s (no lower layer)" % (end_s, end_f, "" if r_f else " - and the error was swallowed", end_n),
              "released on every exit")
    # the lock is a real per-instance mutex
    _a, _b, _c, lk2 = run_tolower(repo)
    kind = lk[1].split(".")[-1]
    ctx.check("C11.hoh", lk2 is not None and lk2[2] is not lk[2] and kind in ("Lock()", "RLock()"), where(LAYERS, "YowLayer.__init__", None), "self.lock = threading.Lock()", "every layer instance needs its own mutex (found %s%s)" % (lk[1], ", shared between instances" if lk2 is not None and lk2[2] is lk[2] else ""), "per-instance mutex")


def rule_only(ctx, layers_full):
    repo = ctx.repo
    base = repo.cls(LAYERS, "YowLayer")
    # uses of the private lower link
    uses = []
    from ..repo import inline_self_aliases
    for name, fn in base.methods.items():
        fn, _al = inline_self_aliases(fn)       # `lower = self.__lower; lower.send(d)` is a use of the link as well
        for n in ast.walk(fn):
            if isinstance(n, ast.Call) and isinstance(n.func, ast.Attribute) and n.func.attr == "send" and "__lower" in unparse(n.func.value):
                uses.append(name)
    if uses == ["toLower"]:
        ctx.hold("C11.only", where(LAYERS, "YowLayer", None), "self.__lower.send used in %s" % uses, "only toLower calls lower.send")
    else:
        # the send sits in a helper (or in several methods): what matters is that no way into the class reaches it without
        # the layer's lock - every method callable from outside that can reach a use is executed and the lock looked at
        # at the moment the lower layer's send runs
        from ..absint import NeedAtom, Budget, DomainGrew
        from ..repo import params_of

        def private(n_):
            return n_.startswith("__") and not n_.endswith("__")
        reach = {u: {u} for u in base.methods}
        changed = True
        while changed:
            changed = False
            for name, fn in base.methods.items():
                for n in ast.walk(fn):
                    if isinstance(n, ast.Call) and is_self_attr(n.func) and (n.func.attr in base.methods or ("_YowLayer" + n.func.attr) in base.methods):
                        callee = n.func.attr
                        if not reach[callee] <= reach[name]:
                            reach[name] |= reach[callee]
                            changed = True
        if not uses:
            # no syntactic use of the link at all: it is handed out by a helper (a context manager's `as` name, a
            # returned value) - every method that can reach any `.send(` call is executed and what arrives at the
            # lower layer decides
            uses = [name for name, fn in base.methods.items()
                    if any(isinstance(n, ast.Call) and isinstance(n.func, ast.Attribute) and n.func.attr == "send" for n in ast.walk(fn))]
        entries = sorted(m for m in base.methods if not private(m) and m != "__init__" and reach[m] & set(uses))
        entries_sending = []
        bad, und = [], []
        for m in entries:
            try:
                sends, _end, _r, lk = run_tolower(repo, method=m, nargs=len(params_of(base.methods[m])))
            except (NeedAtom, Budget, DomainGrew) as x:
                und.append("%s: %s" % (m, x))
                continue
            if sends:
                entries_sending.append(m)
            for held, _a in sends:
                if lk is None or not held or held < 1:
                    bad.append("%s reaches the lower layer's send with the layer lock held %s time(s)" % (m, held))
        if und and not bad:
            ctx.undecided("C11.only", where(LAYERS, "YowLayer", None), "self.__lower.send used in %s" % uses, "not every way to the lower link's send could be followed: " + "; ".join(und[:2]))
        else:
            ctx.check("C11.only", not bad and bool(entries_sending), where(LAYERS, "YowLayer", None), "self.__lower.send used in %s" % uses,
                      "the lower link's send must only run under the layer's lock: " + ("; ".join(bad[:3]) or "no way in found"), "every way to lower.send (%s) holds the layer lock" % ", ".join(entries))
    flat = []
    for L in layers_full:
        flat += L if isinstance(L, list) else [L]
    for c in flat:
        repo.consulted.add(c.relpath)
        over = [k.name for k in repo.mro(c) if k is not base and "toLower" in k.methods]
        ctx.check("C11.only", not over, where(c.relpath, c.name, None), "%s does not override toLower" % c.name, "%s overrides toLower (%s): its sends bypass the hand-over-hand lock" % (c.name, over), "inherits the locked toLower")
        # nobody reaches around the private link
        bad = []
        for k in repo.mro(c):
            if k is base:
                continue
            for fn in k.methods.values():
                for n in ast.walk(fn):
                    if isinstance(n, ast.Attribute) and n.attr in ("_YowLayer__lower", "_YowLayer__upper"):
                        bad.append(k.name + "." + fn.name)
        ctx.check("C11.only", not bad, where(c.relpath, c.name, None), "%s does not touch the private links" % c.name, "%s accesses the private lower/upper link directly" % bad, "links private to YowLayer")


def rule_adj(ctx):
    repo = ctx.repo
    want = ["YowNetworkLayer", "YowNoiseSegmentsLayer", "YowNoiseLayer", "YowCoderLayer"]
    w = where("yowsup/stacks/yowstack.py", "YowStackBuilder.getDefaultLayers", None)
    n = 0
    full = None
    for vec in itertools.product([False, True], repeat=len(FLAGS)):
        v, se = default_layers(repo, dict(zip(FLAGS, vec)))
        layers = flatten(v)
        if layers is None:
            ctx.undecided("C11.adj", w, "flags %s" % (vec,), "default layers not evaluated")
            continue
        names = [x.name for x in layers[:4] if not isinstance(x, list)]
        n += 1
        if all(vec):
            full = layers
        if names != want:
            ctx.violate("C11.adj", w, "flags %s" % "".join("1" if x else "0" for x in vec), "bottom of the stack is %s, expected %s adjacent in this order" % (names, want))
    if n == 16:
        ctx.hold("C11.adj", w, "16 default compositions", "network, segments, noise, coder adjacent at the bottom of every composition")
    return full


def rule_enc(ctx):
    repo = ctx.repo
    cls = repo.cls(NOISE, "YowNoiseLayer")
    sites = []
    for m in repo.modules.values():
        for c in m.classes.values():
            for fname, fn in c.methods.items():
                for n in ast.walk(fn):
                    if isinstance(n, ast.Call) and isinstance(n.func, ast.Attribute) and n.func.attr == "send" and "_wa_noiseprotocol" in unparse(n.func.value):
                        sites.append("%s.%s" % (c.name, fname))
    ctx.check("C11.enc", sites == ["YowNoiseLayer.send"], where(NOISE, "YowNoiseLayer.send", None), "cipher step called from %s" % sites, "the cipher step must be reachable only through YowNoiseLayer.send (which runs under the coder layer's lock)", "only YowNoiseLayer.send encrypts")
    # the stream's write callback, abstractly executed for the WRITE event: the segment taken from the stream goes down
    # through toLower before the callback returns - no thread is started, nothing is queued for later
    hs = repo.method(NOISE, "YowNoiseLayer", "_handle_stream_event")
    whs = where(NOISE, "YowNoiseLayer._handle_stream_event", hs.lineno)

    def write_event(itp):
        env = {"@module": cls.module, "@owner": cls}
        return [itp.expr(ast.parse("BlockingQueueSegmentedStream.EVENT_WRITE", mode="eval").body, env, 0)]
    started = []

    def construct(itp, c, a, k, env, d, e):
        return None
    r, it = run_handler(repo, NOISE, "YowNoiseLayer", "_handle_stream_event", write_event, fields={"_stream": ("ext", "stream", []), "_incoming_segments_queue": ("ext", "inq", [])})
    dn = [e for e in r["effects"] if e[0] == "DOWN"]
    calls = [e[1] for e in r["effects"] if e[0] == "CALL"]
    handoff = [c for c in calls if c.split(".")[-1] in ("start", "put", "put_nowait", "submit", "apply_async", "run_in_executor") or "Thread" in c]
    seg_ok = len(dn) == 1 and dn[0][1][0] in ("fn", "ext") and "get_write_segment" in show(dn[0][1])
    if r["raised"] or (not dn and not calls):
        ctx.undecided("C11.enc", whs, hs, "the write callback could not be followed (%s)" % (r["raised"] or "no effect observed for the WRITE event"))
    else:
        ctx.check("C11.enc", seg_ok and not handoff, whs, "write event -> toLower(segment)",
                  "the encrypted segment must be written synchronously in the stream's write callback (no hand-off to another thread or queue); observed %d write(s), calls %s" % (len(dn), calls[:4]),
                  "segment written synchronously through toLower")
    snd = repo.method(NOISE, "YowNoiseLayer", "send")
    other = [unparse(c.func) for c in ast.walk(snd) if isinstance(c, ast.Call) and is_self_attr(c.func) and c.func.attr in ("toLower", "toUpper")]
    ctx.check("C11.enc", not other, where(NOISE, "YowNoiseLayer.send", snd.lineno), "send only encrypts", "YowNoiseLayer.send writes plaintext or bypasses the cipher (%s)" % other, "nothing written except through the cipher")


def rule_once_frame(ctx):
    repo = ctx.repo
    # coder: one write per stanza
    for rel, cn, expect_calls in ((CODER, "YowCoderLayer", None), (SEG, "YowNoiseSegmentsLayer", None), (NET, "YowNetworkLayer", None)):
        pass
    r, it = run_handler(repo, CODER, "YowCoderLayer", "send", [("ext", "node", [])], extra_hooks={"method:protocolTreeNodeToBytes": lambda itp, recv, a, k, env, d, e: ("list", [("c", 0)])})
    dn = [e for e in r["effects"] if e[0] == "DOWN"]
    ctx.check("C11.once", len(dn) == 1 and not r["raised"], where(CODER, "YowCoderLayer.send", None), "coder forwards once", "the coder layer must forward exactly one byte string per stanza (%d)" % len(dn), "one write per stanza")
    # noise: exactly one cipher call
    r, it = run_handler(repo, NOISE, "YowNoiseLayer", "send", [("c", b"frame")], fields={"_wa_noiseprotocol": ("ext", "protocol", [])})
    enc = [e for e in r["effects"] if e[0] == "CALL" and e[1] == "protocol.send"]
    ctx.check("C11.once", len(enc) == 1, where(NOISE, "YowNoiseLayer.send", None), "noise encrypts once", "each frame must be encrypted exactly once (%d cipher calls)" % len(enc), "one cipher call per frame")
    # segments: header + payload in one invocation when enabled, payload only otherwise
    from ..consts import Evaluator, alts
    seg = repo.cls(SEG, "YowNoiseSegmentsLayer")
    PROP = alts(Evaluator(repo, seg.module, seg).class_const(seg, "PROP_ENABLED"))[0]
    for enabled in (True, False):
        def hook_len(itp, e, args, kwargs, env, depth):
            return ("c", 10)
        r, it = run_handler(repo, SEG, "YowNoiseSegmentsLayer", "send", [("c", b"0123456789")], props={PROP: enabled})
        dn = [e for e in r["effects"] if e[0] == "DOWN"]
        want = 2 if enabled else 1
        ok = len(dn) == want and dn[-1][1] == ("c", b"0123456789") and not r["raised"]
        ctx.check("C11.frame", ok, where(SEG, "YowNoiseSegmentsLayer.send", None), "segmentation %s: %d write(s) in one call" % ("on" if enabled else "off", len(dn)),
                  "a frame must be written as header then payload within one invocation (writes: %s)" % [show(e[1])[:30] for e in dn], "header and payload written back to back in one call" if enabled else "payload only")
    # network: one write when connected
    r, it = run_handler(repo, NET, "YowNetworkLayer", "send", [("c", b"x")], fields={"connected": ("c", True), "_dispatcher": ("ext", "dispatcher", [])})
    wr = [e for e in r["effects"] if e[0] == "CALL" and e[1] == "dispatcher.sendData"]
    ctx.check("C11.once", len(wr) == 1, where(NET, "YowNetworkLayer.send", None), "network writes once", "each byte string must be handed to the dispatcher exactly once (%d)" % len(wr), "one dispatcher write")
    # dispatcher appends in order
    # by abstract execution: connect, then sendData(b"CD") on a buffer holding b"AB": when the socket send is initiated the
    # buffer is b"ABCD"
    from ..absint import Interp, Obj, _Raise
    d = repo.cls("yowsup/layers/network/dispatcher/dispatcher_asyncore.py", "AsyncoreConnectionDispatcher")
    sd = d.methods["sendData"]
    wsd = where(d.relpath, "AsyncoreConnectionDispatcher.sendData", sd.lineno)
    seen = []

    def initiate(itp, fn, owner, self_val, a, k):
        seen.append(self_val[1].fields.get("out_buffer"))
        return ("c", None)
    it = Interp(repo, {}, {}, hooks={"fn:initiate_send": initiate, "method:initiate_send": lambda itp, recv, a, k, env, dd, e: initiate(itp, None, None, recv, a, k)})
    o = Obj(d)
    ov = ("obj", o)
    try:
        k_, init = repo.find_method(d, "__init__")
        cbc = [c for c in repo.by_simple.get("ConnectionCallbacks", []) if "dispatcher" in c.relpath]
        cbs = ("obj", Obj(cbc[0])) if cbc else ("ext", "callbacks", [])
        it.call_function(init, k_, ov, [cbs], {}, depth=0)
        o.fields.setdefault("_send_lock", ("ext", "lock", []))
        it.method_call(ov, "handle_connect", [], {}, {"@module": d.module, "@owner": d}, 0, None)
        o.fields["out_buffer"] = ("c", b"AB")
        it.method_call(ov, "sendData", [("c", b"CD")], {}, {"@module": d.module, "@owner": d}, 0, None)
        problem = None
    except _Raise as x:
        problem = x.text
    if problem or not seen:
        ctx.undecided("C11.once", wsd, sd, "sendData could not be followed: %s" % (problem or "the send was never initiated for a connected dispatcher"))
    else:
        ctx.check("C11.once", seen == [("c", b"ABCD")], wsd, "out_buffer = out_buffer + data", "the dispatcher must append to its output buffer in call order (buffer b'AB' + data b'CD' is sent as %s)" % [show(x) for x in seen], "appended in call order")


def rule_disp(ctx):
    """the asyncore dispatcher's output buffer is touched by two threads - the sender (sendData) and asyncore's loop
    thread (handle_write -> initiate_send): lock-set fact: every statement of the class that reads or writes out_buffer,
    and the base initiate_send that sends and truncates it, run under one per-instance re-entrant lock."""
    repo = ctx.repo
    rel = "yowsup/layers/network/dispatcher/dispatcher_asyncore.py"
    d = repo.cls(rel, "AsyncoreConnectionDispatcher")
    w = where(rel, "AsyncoreConnectionDispatcher", None)

    def lock_of(fn, pred):
        """lock expression L such that every node matching pred lies inside `with L:`; None if some node is unguarded"""
        locks = set()
        hit = False

        def walk(stmts, held):
            nonlocal hit
            for st in stmts:
                if isinstance(st, ast.With):
                    h2 = held + [unparse(it.context_expr) for it in st.items]
                    walk(st.body, h2)
                    continue
                own = [st] if not hasattr(st, "body") else []
                for sub in ("body", "orelse", "finalbody", "handlers"):
                    blk = getattr(st, sub, None)
                    if isinstance(blk, list):
                        walk([x for x in blk if isinstance(x, ast.stmt)] + [y for x in blk if isinstance(x, ast.ExceptHandler) for y in x.body], held)
                for x in own:
                    if any(pred(n) for n in ast.walk(x)):
                        hit = True
                        locks.add(tuple(held))
        walk(fn.body, [])
        if not hit:
            return "absent", None
        common = set.intersection(*[set(l) for l in locks]) if locks else set()
        return ("ok", sorted(common)[0]) if common else ("unguarded", None)
    touches = lambda n: isinstance(n, ast.Attribute) and n.attr == "out_buffer" and isinstance(n.value, ast.Name) and n.value.id == "self"
    guards = {}
    for name, fn in d.methods.items():
        st, L = lock_of(fn, touches)
        if st == "absent":
            continue
        guards[name] = L
        ctx.check("C11.disp", st == "ok", where(rel, "AsyncoreConnectionDispatcher." + name, fn.lineno), "out_buffer accessed in " + name,
                  "out_buffer is read / written here without the send lock while asyncore's loop thread sends and truncates it in initiate_send: the same bytes can reach the socket twice, or be dropped",
                  "under %s" % L)
    init_send = d.methods.get("initiate_send")
    base_call = lambda n: isinstance(n, ast.Call) and isinstance(n.func, ast.Attribute) and n.func.attr == "initiate_send" and not (isinstance(n.func.value, ast.Name) and n.func.value.id == "self")
    if init_send is None:
        ctx.violate("C11.disp", w, "initiate_send not overridden", "asyncore's loop thread calls handle_write -> initiate_send, which sends and truncates out_buffer with no lock: it has to be overridden to take the lock sendData holds")
        return
    st, L2 = lock_of(init_send, base_call)
    locks = set(guards.values()) | {L2}
    ctx.check("C11.disp", st == "ok" and len(locks) == 1 and None not in locks, where(rel, "AsyncoreConnectionDispatcher.initiate_send", init_send.lineno), "initiate_send (loop thread) under the same lock",
              "the base initiate_send must run under the same lock as sendData's append (found %s vs %s)" % (L2, sorted(x for x in guards.values() if x)), "one lock: %s" % L2)
    # a connection never inherits output of the previous one: the network layer creates a fresh dispatcher for every
    # connection (the asyncore out_buffer survives close()), on a node that dominates the connect call
    # - by abstract execution: two connections in a row on one network layer (connect, closed, connect) use two different dispatcher objects,
    # each made during that call
    cc = repo.method(NET, "YowNetworkLayer", "createConnection")
    from ..absint import Interp, _Raise
    from ..layers import LayerRunner
    net = repo.cls(NET, "YowNetworkLayer")
    runner = LayerRunner(repo, {})
    hooks = runner.hooks()
    used = []

    def connect(itp, recv, a, k, env, dd, e):
        used.append(recv)
        return ("c", None)
    hooks["method:connect"] = connect
    hooks["method:getProp"] = lambda itp, recv, a, k, env, dd, e: (a[1] if len(a) > 1 else ("ext", "prop", []))
    it = Interp(repo, {}, {}, hooks=hooks)
    it.layer_base = runner.base
    layer = runner.make_layer(it, net)
    problem = None
    seen_before = []
    try:
        for round_ in range(2):
            if round_:
                # the first connection ends: the dispatcher reports the close (a connect request is honoured only when
                # no connection exists)
                it.method_call(layer, "onDisconnected", [], {}, {"@module": net.module, "@owner": net}, 0, None)
            seen_before.append(layer[1].fields.get("_dispatcher"))
            it.method_call(layer, "createConnection", [], {}, {"@module": net.module, "@owner": net}, 0, None)
    except _Raise as x:
        problem = x.text
    except Exception as x:          # NeedAtom / Budget
        problem = "%s: %s" % (type(x).__name__, x)
    wcc = where(NET, "YowNetworkLayer.createConnection", cc.lineno)
    if problem or len(used) != 2:
        ctx.undecided("C11.disp", wcc, cc, "createConnection could not be followed (%s)" % (problem or "%d connect call(s) in two runs" % len(used)))
    else:
        def ident(v):
            return v[1] if v[0] in ("obj",) else (v[2] if v[0] == "ext" else None)
        fresh = ident(used[0]) is not None and ident(used[0]) is not ident(used[1]) and all(sb is None or ident(sb) is None or ident(sb) is not ident(u) for sb, u in zip(seen_before, used))
        ctx.check("C11.disp", fresh, wcc, "a new dispatcher for every connection",
                  "the dispatcher is not created afresh on every path to connect(): a reused dispatcher still holds the unsent tail of the last frame of the previous connection, which then precedes the prologue on the new one",
                  "a new dispatcher for every connection")
    # the lock is per instance and re-entrant (sendData calls initiate_send while holding it)
    from ..state import bound_in_init
    b = bound_in_init(repo, d)
    attr = (L2 or "self.?").split(".", 1)[-1]
    val = b.get(repo.mangle(d.name, attr), (None, None))[1]
    nested = any(isinstance(n, ast.Call) and is_self_attr(n.func, "initiate_send") for name, fn in d.methods.items() if guards.get(name) for n in ast.walk(fn))
    ok = val is not None and isinstance(val, ast.Call) and unparse(val.func).split(".")[-1] in (("RLock",) if nested else ("RLock", "Lock"))
    ctx.check("C11.disp", ok, w, "send lock bound per instance%s" % (", re-entrant" if nested else ""),
              "the send lock must be created per dispatcher in __init__ and be re-entrant when sendData calls initiate_send while holding it (found %s)" % (unparse(val) if val is not None else None), "threading.%s() per instance" % (unparse(val.func).split(".")[-1] if ok else "?"))


def rule_threads(ctx):
    repo = ctx.repo
    threads = []
    for c in repo.classes.values():
        if "/demos/" in c.relpath or c.name.endswith("Test"):
            continue
        if any("Thread" in b for k in repo.mro(c) for b in k.ext_bases):
            threads.append(c)
    ctx.units["C11.thread_classes"] = [c.name for c in threads]
    for c in threads:
        repo.consulted.add(c.relpath)
        bad = []
        for fn in c.methods.values():
            for n in ast.walk(fn):
                if isinstance(n, ast.Call) and isinstance(n.func, ast.Attribute) and n.func.attr in ("sendData", "sendall", "initiate_send") :
                    bad.append(unparse(n.func))
                if isinstance(n, ast.Attribute) and n.attr in ("_dispatcher", "out_buffer", "_YowLayer__lower"):
                    bad.append(unparse(n))
        ctx.check("C11.threads", not bad, where(c.relpath, c.name, None), "thread class %s" % c.name, "thread %s reaches the wire around the locked chain (%s)" % (c.name, bad), "writes only through layer send / toLower")
    # the dispatcher is used by the network layer only
    users = set()
    for m in repo.modules.values():
        if "/demos/" in m.relpath or "/dispatcher/" in m.relpath:
            continue
        for n in ast.walk(m.tree):
            if isinstance(n, ast.Call) and isinstance(n.func, ast.Attribute) and n.func.attr == "sendData":
                users.add(m.relpath)
    ctx.check("C11.threads", users == {NET}, where(NET, "YowNetworkLayer", None), "dispatcher writes from %s" % sorted(users), "only the network layer may write to the dispatcher", "only the network layer writes to the socket")


def rule_entry(ctx):
    """the first layer of the transport chain (the coder: application threads, the keep-alive thread and protocol layers
    all enter here, in a stack without anything above it concurrently) hands each stanza down through its own locked
    toLower; nothing before that hand-over is protected by a lock, so the send path must not write any per-layer state
    (a reused output buffer, a cached encoder field): by abstract execution of send(<a stanza>) on a layer built by the
    real constructor, with a write barrier on every object reachable from the layer"""
    from ..absint import Interp, Obj, _Raise, NeedAtom, Budget, DomainGrew, C_NONE, enumerate_cells
    from ..layers import LayerRunner
    repo = ctx.repo
    rel = "yowsup/layers/coder/layer.py"
    cls = repo.cls(rel, "YowCoderLayer")
    k, send = repo.find_method(cls, "send")
    w = where(rel, "YowCoderLayer.send", getattr(send, "lineno", None))
    if send is None:
        ctx.undecided("C11.entry", w, "send", "YowCoderLayer.send vanished")
        return

    def reachable(v, seen, out, path):
        if not isinstance(v, tuple) or not v:
            return
        if v[0] == "obj":
            if v[1].id in seen:
                return
            seen.add(v[1].id)
            out.append((v[1], path))
            for f, x in v[1].fields.items():
                reachable(x, seen, out, path + "." + f if path else f)
        elif v[0] in ("list", "dict"):
            out.append((v[1], path))
            for x in (v[1] if v[0] == "list" else v[1].values()):
                reachable(x, seen, out, path + "[]")
        elif v[0] == "c" and isinstance(v[1], (bytearray, list, dict, set)):
            out.append((v[1], path))

    def stanza(it, which):
        if which == 0:
            return it.new_node([("c", "message"), ("dict", {"id": ("c", "1"), "to": ("c", "123@s.whatsapp.net")}), C_NONE, ("c", b"payload")], {})
        return it.new_node([("c", "receipt"), ("dict", {"id": ("c", "77"), "type": ("c", "read"), "to": ("c", "9@g.us")}), C_NONE, C_NONE], {})

    def make_run(which):
        def run(cell, domains):
            runner = LayerRunner(repo, {})
            it = Interp(repo, cell, domains, hooks=runner.hooks())
            it.layer_base = runner.base
            it.max_steps = 500000           # the real token dictionary and encoder are executed
            layer = runner.make_layer(it, cls)
            objs = []
            reachable(layer, set(), objs, "self")
            writes = []

            def on_write(kind, target, detail, node, value=None):
                t = target[1]
                for o, path in objs:
                    if o is t:
                        writes.append((path, kind, detail, getattr(node, "lineno", None), repr(value)[:4000]))
            node = stanza(it, which)
            it.on_write = on_write
            raised = None
            try:
                it.call_function(send, k, layer, [node], {}, depth=0)
            except _Raise as r:
                raised = r.text
            it.on_write = None
            downs = [e for e in it.effects if e[0] == "DOWN"]
            return {"writes": writes, "downs": len(downs), "raised": raised, "objects": len(objs)}, it
        return run
    try:
        cells = enumerate_cells(make_run(0), {}, max_cells=512)
        cells_b = enumerate_cells(make_run(1), {}, max_cells=512)
    except (Budget, NeedAtom, DomainGrew) as x:
        ctx.undecided("C11.entry", w, "send", "send could not be executed: %s" % (x,))
        return
    # a write is unprotected STATE when what is written depends on the stanza being sent: the same send path is executed
    # for two different stanzas and the stores are compared.  A store that writes the same value whatever is sent (a lookup
    # table built on first use) is idempotent: two threads racing on it write the same thing
    wa = {wr for _c, r in cells for wr in r["writes"]}
    wb = {wr for _c, r in cells_b for wr in r["writes"]}
    writes = sorted({wr[:4] for wr in (wa ^ wb)})
    ctx.units["C11.entry_idempotent_writes"] = len({wr[:4] for wr in (wa & wb)})
    reached = [r for _c, r in cells if r["downs"]] and [r for _c, r in cells_b if r["downs"]]
    if not reached:
        ctx.undecided("C11.entry", w, "send", "no executed path hands the stanza down (%s)" % sorted({str(r["raised"])[:50] for _c, r in cells + cells_b}))
        return
    ctx.units["C11.entry_objects_watched"] = max(r["objects"] for _c, r in cells)
    ctx.check("C11.entry", not writes, w, "send writes no per-layer state before the locked hand-over",
              "the send path writes %s (%s at line %s) outside any lock: two threads entering the chain here (nothing above the coder serialises them) overwrite each other's stanza - one is transmitted twice, the other never" % (
                  writes[0][0] if writes else "", "%s %s" % (writes[0][1], writes[0][2]) if writes else "", writes[0][3] if writes else ""),
              "%d object(s) reachable from the layer watched over %d path class(es), two different stanzas: nothing written that depends on the stanza" % (ctx.units["C11.entry_objects_watched"], len(cells)))


def run(ctx):
    ctx.rule("C11.hoh", "toLower abstractly executed: lower send inside the critical section of a per-instance lock, released on every exit", floor=3)
    ctx.rule("C11.only", "toLower is the only way down; not overridden", floor=30)
    ctx.rule("C11.adj", "transport layers adjacent in all compositions", floor=1)
    ctx.rule("C11.enc", "single synchronous cipher path", floor=3)
    ctx.rule("C11.frame", "header and payload in one invocation", floor=2)
    ctx.rule("C11.once", "each core layer forwards once", floor=4)
    ctx.rule("C11.disp", "dispatcher output buffer: one lock for the sender thread and the asyncore loop thread", floor=3)
    ctx.rule("C11.threads", "thread entry points use the locked chain", floor=3)
    ctx.rule("C11.entry", "the chain's entry layer writes no unprotected state on its send path", floor=1)
    ctx.assume("consonance's write_segment calls back synchronously; asyncore's initiate_send sends a prefix of out_buffer and removes exactly what was sent")
    ctx.guarded("C11.hoh", rule_hoh, ctx)
    full = ctx.guarded("C11.adj", rule_adj, ctx)
    if full:
        ctx.guarded("C11.only", rule_only, ctx, full)
    ctx.guarded("C11.enc", rule_enc, ctx)
    ctx.guarded("C11.once", rule_once_frame, ctx)
    ctx.guarded("C11.disp", rule_disp, ctx)
    ctx.guarded("C11.threads", rule_threads, ctx)
    ctx.guarded("C11.entry", rule_entry, ctx)
