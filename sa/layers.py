"""Running layer handlers in the abstract interpreter.

The layer object is built by interpreting the layer class's own __init__ (so the handler table
is the one the code builds), and the dispatch code that is interpreted is the repository's own
(YowProtocolLayer.receive / send, processIqRegistry ...).  Only the stack primitives are hooked:
toUpper / toLower / emitEvent / broadcastEvent / getProp / setProp / getLayerInterface / getStack.
"""
import ast

from .absint import Interp, Node, Obj, NeedAtom, DomainGrew, Budget, _Raise, _Return, C_NONE, show, enumerate_cells, count_effects, flat_effects
from .repo import unparse

LAYERS = "yowsup/layers/__init__.py"


class LayerRunner:
    def __init__(self, repo, props=None):
        self.repo = repo
        self.base = repo.cls(LAYERS, "YowLayer")
        self.props = props or {}

    def hooks(self):
        base = self.base
        repo = self.repo

        def is_layer(recv):
            return recv[0] == "obj" and recv[1].cls is not None and base in repo.mro(recv[1].cls)

        def meta(it, env, e, v):
            o = env.get("@owner")
            m = {"site": "%s in %s.%s" % (unparse(e) if e is not None else "?", o.name if o is not None else "?", env.get("@fname", "?")), "asked": tuple(it.asked)}
            if v[0] == "node":
                m["children"] = tuple(c.tag[1] if isinstance(c, Node) and c.tag is not None and c.tag[0] == "c" else "?" for k, c in v[1].children)
            return m

        def up(it, recv, args, kwargs, env, depth, e):
            if is_layer(recv):
                v = it.force(args[0]) if args else C_NONE
                it.emit("UP", v, meta(it, env, e, v))
                return C_NONE

        def down(it, recv, args, kwargs, env, depth, e):
            if is_layer(recv):
                v = it.force(args[0]) if args else C_NONE
                it.emit("DOWN", v, meta(it, env, e, v))
                return C_NONE

        def emit(it, recv, args, kwargs, env, depth, e):
            if is_layer(recv):
                it.emit("EMIT", args[0] if args else C_NONE)
                return C_NONE

        def bcast(it, recv, args, kwargs, env, depth, e):
            if is_layer(recv):
                it.emit("BCAST", args[0] if args else C_NONE)
                return C_NONE

        def getprop(it, recv, args, kwargs, env, depth, e):
            if is_layer(recv):
                k = args[0] if args else C_NONE
                if k[0] == "c" and k[1] in self.props:
                    return ("c", self.props[k[1]])
                return ("fn", "prop", [k])

        def setprop(it, recv, args, kwargs, env, depth, e):
            if is_layer(recv):
                it.emit("SETPROP", args[0] if args else C_NONE, args[1] if len(args) > 1 else C_NONE)
                return C_NONE

        def iface(it, recv, args, kwargs, env, depth, e):
            if is_layer(recv):
                return ("ext", "layerInterface", list(args))

        def getstack(it, recv, args, kwargs, env, depth, e):
            if is_layer(recv):
                return ("ext", "stack", [])
        return {"method:subEmitEvent": emit, "method:subBroadcastEvent": bcast, "method:toUpper": up, "method:toLower": down, "method:emitEvent": emit, "method:broadcastEvent": bcast,
                "method:getProp": getprop, "method:setProp": setprop, "method:getLayerInterface": iface, "method:getStack": getstack}

    def make_layer(self, it, cls):
        """layer object from the class's own __init__ (YowLayer.__init__'s reflection is opaque)"""
        o = Obj(cls)
        ov = ("obj", o)
        k, init = self.repo.find_method(cls, "__init__")
        if init is not None:
            try:
                it.call_function(init, k, ov, [], {}, depth=0)
            except _Return:
                pass
        it.effects[:] = []
        return ov

    def run(self, cls, method, make_args, cell, domains, props=None):
        """-> (result dict, interp).  make_args(it) -> list of argument values"""
        it = Interp(self.repo, cell, domains, hooks=self.hooks())
        it.layer_base = self.base
        if props is not None:
            self.props = props
        layer = self.make_layer(it, cls)
        args = make_args(it)
        k, m = self.repo.find_method(cls, method)
        res = {"raised": None, "ret": None}
        try:
            res["ret"] = it.call_function(m, k, layer, args, {}, depth=0)
        except _Raise as r:
            res["raised"] = r.text or show(r.exc)
            it.emit("RAISE", r.text)
        res["effects"] = it.effects
        res["layer"] = layer
        res["api_misuse"] = it.api_misuse
        res["asked"] = list(it.asked)
        return res, it


def symbolic_node(tag):
    n = Node(("c", tag), ())
    return ("node", n)



def registry_entries(reg):
    """[(request value, success callable, error callable)] from the abstract value of an iq registry, whatever shape an entry
    has: (request, ok, err) tuples, (request, {"result": ok, "error": err}), objects ... - the request is the first
    object / node found in the entry, the callbacks are the callables (or None) found in it, in order; a mapping is read
    by its keys ('result' / 'success' / 'ok' first, then 'error' / 'fail')."""
    out = []
    if not reg or reg[0] != "dict":
        return out

    def walk(v, found):
        if not isinstance(v, tuple) or not v:
            return
        if v[0] in ("obj", "node"):
            found["req"].append(v)
        elif v[0] in ("bound", "closure", "clsmethod"):
            found["cb"].append(v)
        elif v[0] == "c" and v[1] is None:
            found["cb"].append(v)
        elif v[0] == "list":
            for x in v[1]:
                walk(x, found)
        elif v[0] == "dict":
            items = list(v[1].items())

            def rank(kv):
                k = str(kv[0]).lower()
                return 0 if any(t in k for t in ("result", "success", "ok")) else (1 if any(t in k for t in ("err", "fail")) else 2)
            for k_, x in sorted(items, key=rank):
                walk(x, found)
    for k, v in reg[1].items():
        entry = v
        if isinstance(k, tuple) and k and k[0] == "dyn" and v[0] == "list" and len(v[1]) == 2:
            entry = v[1][1]
        found = {"req": [], "cb": []}
        walk(entry, found)
        if found["req"]:
            cbs = found["cb"] + [("c", None), ("c", None)]
            out.append((found["req"][0], cbs[0], cbs[1]))
    return out


def event_handlers(repo, cls):
    """{event name: method name} as the layer's own constructor registers them - YowLayer.__init__ run by the
    interpreter, the repository's decorators applied to the methods (sa/absint.func_attrs); None when the constructor
    cannot be followed or leaves no closed table"""
    try:
        runner = LayerRunner(repo)
        it = Interp(repo, {}, {}, hooks=runner.hooks())
        it.layer_base = runner.base
        layer = runner.make_layer(it, cls)
    except (NeedAtom, DomainGrew, Budget, _Raise):
        return None
    ec = layer[1].fields.get("event_callbacks")
    if ec is None or ec[0] != "dict" or (len(ec) > 2 and ec[2]):
        return None
    out = {}
    for k, v in ec[1].items():
        if not isinstance(k, str) or v[0] != "bound":
            return None
        out[k] = v[2]
    return out
