"""Routing simulation over the assembled protocol group (C06 / C07 / C08).

The group object is built by interpreting `YowParallelLayer(<layer classes>)`; `receive` / `send`
are the repository's own (fan-out loop, handleMap lookup, processIqRegistry).  Inputs are symbolic
(stanza with lazy attribute/child atoms, or an entity object built by the class's own constructor
from opaque arguments); the cells of the input space are enumerated by absint.enumerate_cells.
"""
import ast

from .absint import (clone_value, Interp, Node, Obj, NeedAtom, DomainGrew, Budget, _Raise, _Return, C_NONE, OTHER, show, enumerate_cells,
                     count_effects, flat_effects, deps_of)
from .layers import LayerRunner, symbolic_node, LAYERS
from .stackmodel import default_layers, flatten, FLAGS, StackError

PAYLOAD_KINDS = ("conversation", "image", "contact", "location", "extended_text", "document", "audio", "video", "sticker", "protocol")
ATOM_PAYLOAD = ("A", ("proto",), "#payload")
ATOM_SKDM = ("C", ("proto",), "#sender_key_distribution")


class GroupSim:
    def __init__(self, repo, flags=None, layer_classes=None):
        self.repo = repo
        self.runner = LayerRunner(repo)
        if layer_classes is None:
            flags = flags if flags is not None else dict.fromkeys(FLAGS, True)
            v, se = default_layers(repo, flags)
            layers = flatten(v)
            if layers is None:
                raise StackError("default layers could not be evaluated", se.errors)
            layer_classes = layers[-1]
            self.all_layers = layers
        self.layer_classes = layer_classes
        self.par = repo.cls(LAYERS, "YowParallelLayer")
        self._templates = {}
        self.msgattrs = None
        for c in repo.by_simple.get("MessageAttributes", []):
            self.msgattrs = c

    # ------------------------------------------------------------------ hooks
    def hooks(self):
        h = self.runner.hooks()
        sim = self

        def payload_message(it, recv, args, kwargs, env, depth, e):
            """result of parsing the proto payload: exactly one payload kind (or none / an unmodelled one)
            plus an optional sender-key distribution - the shape of e2e.proto's Message as the converter models it"""
            if recv[0] == "obj" and recv[1].cls is not None and recv[1].cls.name == "AttributesConverter" and sim.msgattrs is not None:
                it.domains.setdefault(ATOM_PAYLOAD, list(PAYLOAD_KINDS))
                o = Obj(sim.msgattrs)
                a = list(args)

                def kind_field(k):
                    return lambda itp: ("ext", "payload:" + k, a) if itp.ask(ATOM_PAYLOAD) == k else C_NONE
                for k in PAYLOAD_KINDS:
                    o.fields["_" + k] = ("lazy", kind_field(k))
                o.fields["_sender_key_distribution_message"] = ("lazy", lambda itp: ("ext", "payload:skdm", a) if itp.ask(ATOM_SKDM) else C_NONE)
                return ("obj", o)
        def opaque_serialise(it, recv, args, kwargs, env, depth, e):
            """the entity handed to the stack from above: its serialisation is irrelevant for routing counts, only its
            identity matters (C06.eqser); the content of serialisers is C09's"""
            if recv[0] == "obj" and recv[1] is getattr(it, "input_entity", None):
                n = Node(recv[1].fields.get("tag", ("unset", "tag")), None)
                n.made_by = (recv[1], "toProtocolTreeNode")
                return ("node", n)
        def payload_is_skdm_only(it, recv, args, kwargs, env, depth, e):
            """the converter's question "is this payload nothing but a sender-key distribution": in the payload model that is
            - no payload kind (not even an unmodelled one) and a key distribution present"""
            if recv[0] == "obj" and recv[1].cls is not None and recv[1].cls.name == "AttributesConverter":
                it.domains.setdefault(ATOM_PAYLOAD, list(PAYLOAD_KINDS))
                return ("c", it.ask(ATOM_PAYLOAD) is None and bool(it.ask(ATOM_SKDM)))
        h["method:protobytes_is_key_distribution_only"] = payload_is_skdm_only
        h["method:toProtocolTreeNode"] = opaque_serialise
        h["method:protobytes_to_message"] = payload_message
        h["method:proto_to_message"] = payload_message
        return h

    def new_interp(self, cell, domains):
        it = Interp(self.repo, cell, domains, hooks=self.hooks())
        it.layer_base = self.runner.base
        # the text of a plain message is a string the peer chose - the empty string included: whether it is truthy is not
        # known (every other payload kind is an object)
        it.maybe_falsy = lambda v: v[1] == "payload:conversation"
        return it

    def make_group(self, it, classes=None):
        """group object built by interpreting YowParallelLayer(<classes>) once; every run gets a private clone"""
        classes = classes if classes is not None else self.layer_classes
        key = tuple(c.qname for c in classes)
        if key not in self._templates:
            it0 = self.new_interp({}, {})
            g0 = it0.construct(self.par, [("list", [("cls", c) for c in classes])], {}, {"@module": self.par.module, "@owner": None}, 0, None)
            self._templates[key] = (g0, dict(it0.class_attrs))
        g0, ca = self._templates[key]
        it.class_attrs.update(ca)
        it.effects[:] = []
        return clone_value(g0, {})

    # ------------------------------------------------------------------ receive side
    def receive(self, tag, cell, domains, classes=None, node=None):
        it = self.new_interp(cell, domains)
        g = self.make_group(it, classes)
        n = node if node is not None else symbolic_node(tag)
        res = {"raised": None}
        k, m = self.repo.find_method(g[1].cls, "receive")
        try:
            it.call_function(m, k, g, [n], {}, depth=0)
        except _Raise as r:
            res["raised"] = r.text or show(r.exc)
        res["effects"] = it.effects
        res["group"] = g
        res["node"] = n
        res["api_misuse"] = it.api_misuse
        return res, it

    # ------------------------------------------------------------------ send side
    def make_entity(self, it, cls):
        """entity built by its own constructor from opaque arguments"""
        k, init = self.repo.find_method(cls, "__init__")
        args = []
        if init is not None:
            ps = [a.arg for a in init.args.args][1:]
            nd = len(init.args.defaults)
            req = ps[: len(ps) - nd] if nd else ps
            args = [("atom", ("E", p)) for p in req]
        ent = it.construct(cls, args, {}, {"@module": cls.module, "@owner": None}, 0, None)
        it.effects[:] = []
        return ent

    def send(self, entity_cls, cell, domains, classes=None):
        it = self.new_interp(cell, domains)
        g = self.make_group(it, classes)
        res = {"raised": None, "ctor_raised": None}
        try:
            ent = self.make_entity(it, entity_cls)
        except _Raise as r:
            res["ctor_raised"] = r.text
            res["effects"] = []
            return res, it
        k, m = self.repo.find_method(g[1].cls, "send")
        it.input_entity = ent[1] if ent[0] == "obj" else None
        try:
            it.call_function(m, k, g, [ent], {}, depth=0)
        except _Raise as r:
            res["raised"] = r.text or show(r.exc)
        res["effects"] = it.effects
        res["group"] = g
        res["entity"] = ent
        res["registrations"] = self.registrations(g)
        return res, it

    def registrations(self, g):
        out = []
        subs = g[1].fields.get("sublayers")
        if subs and subs[0] == "list":
            for s in subs[1]:
                if s[0] == "obj":
                    from .layers import registry_entries
                    for (req, okcb, errcb) in registry_entries(s[1].fields.get("iqRegistry")):
                        out.append((s[1].cls, req, okcb, errcb))
        return out

    # ------------------------------------------------------------------ callbacks
    def run_callback(self, layer_cls, cb, reply_type, cell, domains):
        """run a registered iq callback (bound method / closure) with a symbolic reply"""
        it = self.new_interp(cell, domains)
        res = {"raised": None}
        node = symbolic_node("iq")
        node[1].attrs["type"] = ("c", reply_type)
        try:
            if cb[0] == "bound":
                # rebuild the layer in this interpreter (objects are per run)
                layer = self.runner.make_layer(it, layer_cls)
                it.method_call(layer, cb[2], [node, ("fn", "originalIq", [])], {}, {"@module": layer_cls.module}, 0, None)
            elif cb[0] == "closure":
                it.apply(cb, [node, ("fn", "originalIq", [])], {}, {}, 0, None)
            else:
                res["raised"] = "callback is not callable: " + show(cb)
        except _Raise as r:
            res["raised"] = r.text or show(r.exc)
        res["effects"] = it.effects
        return res, it


def concrete_entity_classes(repo):
    base = repo.cls("yowsup/structs/protocolentity.py", "ProtocolEntity")
    out = []
    for c in repo.all_subclasses(base):
        if c.name.endswith("Test") or "/demos/" in c.relpath:
            continue
        out.append(c)
    return sorted(out, key=lambda c: c.qname)


def cell_label(cell):
    parts = []
    for a, v in sorted(cell.items(), key=lambda kv: str(kv[0])):
        if a[0] == "A":
            parts.append("%s%s=%s" % ("/".join(a[1]) + ("/" if a[1] else ""), a[2], v))
        elif a[0] == "C":
            parts.append("%s<%s>" % ("" if v else "no ", "/".join(a[1] + (a[2],))))
        elif a[0] == "E":
            parts.append("entity.%s=%s" % (a[1], v))
        else:
            parts.append("%s%s" % ("" if v else "not ", a[1]))
    return ", ".join(parts)


def ups(effects):
    return count_effects(effects, lambda e: e[0] == "UP")


def downs(effects):
    return count_effects(effects, lambda e: e[0] == "DOWN")
