"""Findings, known-finding matching, evidence and replay files."""
import json
import os
import time

from .repo import norm_stmt

VERIF = os.path.dirname(os.path.dirname(os.path.abspath(__file__)))

HOLDS, VIOLATION, UNDECIDED, NOTE = "HOLDS", "VIOLATION", "UNDECIDED", "NOTE"


class Instance:
    __slots__ = ("rule", "file", "function", "construct", "verdict", "what", "line", "extra")

    def __init__(self, rule, file, function, construct, verdict, what="", line=None, extra=None):
        self.rule = rule
        self.file = file
        self.function = function
        self.construct = construct
        self.verdict = verdict
        self.what = what
        self.line = line
        self.extra = extra

    def key(self):
        return (self.rule, self.file, self.function, self.construct)

    def as_dict(self):
        d = {"rule": self.rule, "file": self.file, "function": self.function,
             "construct": self.construct, "verdict": self.verdict}
        if self.what:
            d["what"] = self.what
        if self.line:
            d["line_hint"] = self.line
        if self.extra:
            d["extra"] = self.extra
        return d


def _construct(c):
    if c is None:
        return ""
    if isinstance(c, str):
        return " ".join(c.split())
    return norm_stmt(c)


class Ctx:
    """Collects rule instances for one property run."""

    def __init__(self, repo, prop, tier):
        self.repo = repo
        self.prop = prop
        self.tier = tier
        self.instances = []
        self.floors = {}
        self.assumptions = []
        self.units = {}
        self.notes = []
        self.rule_docs = {}

    # -- registration
    def rule(self, rule, doc, floor=1):
        self.rule_docs[rule] = doc
        self.floors[rule] = floor

    def assume(self, text):
        if text not in self.assumptions:
            self.assumptions.append(text)

    def _add(self, rule, where, construct, verdict, what):
        file, func, line = where
        if hasattr(construct, "lineno") and not line:
            line = construct.lineno
        inst = Instance(rule, file, func, _construct(construct), verdict, what, line)
        self.instances.append(inst)
        return inst

    def hold(self, rule, where, construct, what=""):
        return self._add(rule, where, construct, HOLDS, what)

    def violate(self, rule, where, construct, what):
        return self._add(rule, where, construct, VIOLATION, what)

    def undecided(self, rule, where, construct, what):
        return self._add(rule, where, construct, UNDECIDED, what)

    def note(self, text):
        self.notes.append(text)

    def guarded(self, rule, fn, *args, **kw):
        """run one rule function; a crash or an unmodelled construct inside it makes that rule UNDECIDED instead of
        aborting the property (so that definite violations found by the other rules are still reported)"""
        try:
            return fn(*args, **kw)
        except (KeyboardInterrupt, SystemExit):
            raise
        except Exception as e:      # NeedAtom / Budget / AnalysisError / anything the rule did not foresee
            self.undecided(rule, ("", fn.__name__, None), fn.__name__, "the analysis behind this rule could not be completed: %s: %s" % (type(e).__name__, str(e)[:160]))
            return None

    def adopt_from(self, prop, calls, mapping):
        """run rule functions of another property on a scratch context and take their instances over under our ids.
        calls: [(function, extra positional args)] - each is called as function(scratch, *args), guarded"""
        scratch = Ctx(self.repo, prop, self.tier)
        for r in mapping:
            scratch.rule(r, "", 0)
        first = sorted(set(mapping.values()))[0]
        for fn, args in calls:
            args = [a(scratch) if callable(a) and getattr(a, "_needs_scratch", False) else a for a in args]
            self.guarded(first, fn, scratch, *args)
        self.adopt(scratch, mapping)
        self.units.update({k: v for k, v in scratch.units.items() if k not in self.units})

    def adopt(self, other, mapping):
        """take over the instances of another context's rules under this property's rule ids (mapping: their id -> ours);
        used where one property's clause is literally another property's rule (e.g. 'survives the codec' = C01's rules)"""
        for inst in other.instances:
            if inst.rule in mapping:
                self.instances.append(Instance(mapping[inst.rule], inst.file, inst.function, inst.construct, inst.verdict, inst.what, inst.line, inst.extra))

    def check(self, rule, cond, where, construct, what_bad, what_ok=""):
        """cond: True -> HOLDS, False -> VIOLATION, None -> UNDECIDED"""
        if cond is True:
            return self.hold(rule, where, construct, what_ok)
        if cond is False:
            return self.violate(rule, where, construct, what_bad)
        return self.undecided(rule, where, construct, "could not decide: " + what_bad)


def where(relpath, func="", line=None):
    return (relpath, func, line)


def load_known():
    p = os.path.join(VERIF, "known_findings.json")
    if not os.path.exists(p):
        return {"known": [], "fixed": []}
    with open(p) as fh:
        return json.load(fh)


def finish(ctx, t0, seed=0, selftest=None, write=True):
    """Evaluate floors, match known findings, write evidence + replay files, print
    the report lines and return the exit code."""
    prop = ctx.prop
    known = [k for k in load_known().get("known", []) if k.get("property") == prop]
    per_rule = {}
    for r in ctx.floors:
        per_rule[r] = {"instances": 0, "held": 0, "violated": 0, "undecided": 0,
                       "floor": ctx.floors[r], "doc": ctx.rule_docs.get(r, "")}
    for i in ctx.instances:
        pr = per_rule.setdefault(i.rule, {"instances": 0, "held": 0, "violated": 0,
                                          "undecided": 0, "floor": 0, "doc": ""})
        pr["instances"] += 1
        pr[{HOLDS: "held", VIOLATION: "violated", UNDECIDED: "undecided"}[i.verdict]] += 1
    undecided = [i for i in ctx.instances if i.verdict == UNDECIDED]
    floor_fail = []
    for r, pr in per_rule.items():
        if pr["instances"] < pr["floor"]:
            floor_fail.append("rule %s analysed %d instance(s), floor is %d" % (r, pr["instances"], pr["floor"]))
    viol = [i for i in ctx.instances if i.verdict == VIOLATION]
    new, matched, used = [], [], set()
    for i in viol:
        hit = None
        for n, k in enumerate(known):
            if (k.get("rule") == i.rule and k.get("file") == i.file
                    and k.get("function") == i.function and _construct(k.get("construct")) == i.construct):
                hit = n
                break
        if hit is None:
            new.append(i)
        else:
            used.add(hit)
            matched.append((i, known[hit]))
    out = []
    for i, k in matched:
        out.append("KNOWN-FINDING: property=%s rule=%s %s %s: %s" % (prop, i.rule, i.file, i.function, k.get("what", i.what)))
    for n, k in enumerate(known):
        if n not in used:
            out.append("STALE-KNOWN-FINDING: property=%s rule=%s %s (listed finding no longer matches anything)" % (prop, k.get("rule"), k.get("function")))
    replay_dir = os.path.join(VERIF, "evidence", "replay")
    if write:
        os.makedirs(replay_dir, exist_ok=True)
        for f in os.listdir(replay_dir):
            if f.startswith(prop + "-"):
                os.unlink(os.path.join(replay_dir, f))
    for n, i in enumerate(new):
        rp = os.path.join("evidence", "replay", "%s-%d.json" % (prop, n + 1))
        if write:
            with open(os.path.join(VERIF, rp), "w") as fh:
                d = i.as_dict()
                d["property"] = prop
                d["explanation"] = i.what
                json.dump(d, fh, indent=1)
        out.append("  %s %s:%s %s :: %s -- %s" % (i.rule, i.file, i.line or "?", i.function, i.construct, i.what))
        out.append("VIOLATION property=%s replay=%s" % (prop, rp))
    for i in undecided:
        out.append("UNDECIDED property=%s rule=%s %s %s :: %s -- %s" % (prop, i.rule, i.file, i.function, i.construct, i.what))
    for f in floor_fail:
        out.append("UNDECIDED property=%s %s (a rule that matches nothing must not pass vacuously)" % (prop, f))
    for n in ctx.notes:
        out.append("NOTE: " + n)
    if selftest and selftest.get("failed"):
        for f in selftest["failed"]:
            out.append("ANALYSIS-ERROR property=%s self-test: %s" % (prop, f))
    code = 0
    if new:
        code = 1
    elif undecided or floor_fail or (selftest and selftest.get("failed")):
        code = 2
    # evidence
    digest, nfiles = ctx.repo.digest()
    distinct = len({i.key() for i in ctx.instances})
    samples = []
    seen_rules = set()
    for i in ctx.instances:
        if i.rule not in seen_rules or i.verdict != HOLDS:
            seen_rules.add(i.rule)
            samples.append(i.as_dict())
    samples = samples[:40]
    held = sum(1 for i in ctx.instances if i.verdict == HOLDS)
    stats = ctx.repo.stats()
    cov = {
        "explanation": ("static analysis of /repo's current source (stdlib ast; nothing executed): %d rule(s), "
                        "%d rule instance(s) analysed, %d held, %d violated (%d listed as known finding), %d undecided. "
                        "An obligation is one rule instance = one construct (call site, statement, table entry, path, cell) "
                        "the rule had to decide." % (len(per_rule), len(ctx.instances), held, len(viol), len(matched), len(undecided))),
        "obligations": len(ctx.instances),
        "discharged": held,
        "evaluations": len(ctx.instances),
        "distinct_nontrivial": distinct,
        "rule": "one case = one (rule, file, function, normalised construct); distinct by that key; all are non-trivial in that the rule had to establish a fact about the construct",
        "samples": samples,
        "rules": per_rule,
        "units": dict(stats, files_consulted=nfiles, sha256_consulted=digest, consulted=sorted(ctx.repo.consulted)),
        "known_findings_matched": [k.get("what") for _, k in matched],
        "all_nonholding": [i.as_dict() for i in ctx.instances if i.verdict != HOLDS],
        "exhaustive": True,
        "checker_cmd": "./check %s --tier %s" % (prop, ctx.tier),
        "trusted_base": ["CPython ast module", "the analyser under /verif/sa"],
    }
    cov["units"].update(ctx.units)
    if selftest is not None:
        cov["selftest"] = selftest
    ev = {
        "property_id": prop, "tier": ctx.tier, "seed": seed, "level": "other",
        "coverage": cov, "assumptions": ctx.assumptions,
        "wall_s": round(time.time() - t0, 3), "violations": len(new),
    }
    if write:
        os.makedirs(os.path.join(VERIF, "evidence"), exist_ok=True)
        with open(os.path.join(VERIF, "evidence", prop + ".json"), "w") as fh:
            json.dump(ev, fh, indent=1, sort_keys=True)
    return code, out, ev
