"""Per-function statement CFG with exceptional edges, dominators and path queries.

Statement kinds handled: simple statements, if / while / for (+else), try / except /
else / finally, with, return, raise, break, continue, assert, match is not used by the repo.
Every node that may raise (by default: contains a call, is a `raise` or an `assert`) gets
an edge of kind 'exc' to the innermost handler dispatch, enclosing finally copy, or the
function's exceptional exit.  `finally` bodies and `with` exits are duplicated per kind of
exit (normal / exception / return / break / continue) so that path facts stay exact.
"""
import ast

from .repo import norm_stmt

NON_RAISING_CALLS = {
    # builtins / methods the rules treat as not raising (allow-list)
    "len", "isinstance", "type", "str", "bool", "id", "hasattr", "repr", "tuple", "list", "dict", "set",
    "release", "debug", "info", "warning", "warn", "error", "exception", "critical", "format", "getLogger",
    "locked", "time", "append", "notify", "notify_all", "notifyAll", "isSet", "is_set",
}


class Node:
    __slots__ = ("id", "kind", "stmt", "succ", "pred", "label", "tag")

    def __init__(self, nid, kind, stmt=None, label="", tag=None):
        self.id = nid
        self.kind = kind      # entry exit raise stmt test loop dispatch handler with_enter with_exit join
        self.stmt = stmt
        self.succ = []        # (node, edgekind) edgekind in normal true false exc
        self.pred = []
        self.label = label
        self.tag = tag        # e.g. 'exc' copy of a finally body

    def __repr__(self):
        return "<N%d %s %s>" % (self.id, self.kind, self.text())

    def text(self):
        if self.stmt is not None:
            return norm_stmt(self.stmt)
        return self.label or self.kind

    @property
    def line(self):
        return getattr(self.stmt, "lineno", None)


class _Ctx:
    __slots__ = ("ret", "brk", "cont", "exc")

    def __init__(self, ret, brk, cont, exc):
        self.ret, self.brk, self.cont, self.exc = ret, brk, cont, exc

    def replace(self, **kw):
        c = _Ctx(self.ret, self.brk, self.cont, self.exc)
        for k, v in kw.items():
            setattr(c, k, v)
        return c


def default_may_raise(node_ast):
    """Does evaluating this statement / expression possibly raise?"""
    if node_ast is None:
        return False
    if isinstance(node_ast, (ast.Raise, ast.Assert)):
        return True
    for n in _walk_no_nested(node_ast):
        if isinstance(n, ast.Call):
            f = n.func
            name = f.id if isinstance(f, ast.Name) else (f.attr if isinstance(f, ast.Attribute) else None)
            if name in NON_RAISING_CALLS:
                continue
            return True
    return False


def _walk_no_nested(n):
    """ast.walk that does not descend into nested function / lambda / class bodies."""
    todo = [n]
    while todo:
        x = todo.pop()
        yield x
        for c in ast.iter_child_nodes(x):
            if isinstance(c, (ast.FunctionDef, ast.AsyncFunctionDef, ast.Lambda, ast.ClassDef)):
                continue
            todo.append(c)


walk_no_nested = _walk_no_nested

CATCH_ALL = {"Exception", "BaseException"}

PY = (3, 12)


def static_truth(test):
    """Truth value of interpreter-version tests (`sys.version_info < (3, 0)` ...) under Python 3; None otherwise.
    The repo's Python-2 compatibility branches are dead code and are pruned from the CFG."""
    if isinstance(test, ast.Compare) and len(test.ops) == 1 and ast.unparse(test.left) in ("sys.version_info", "sys.version_info[0]"):
        try:
            rhs = ast.literal_eval(test.comparators[0])
        except Exception:
            return None
        lhs = PY if ast.unparse(test.left) == "sys.version_info" else PY[0]
        if isinstance(rhs, tuple) != isinstance(lhs, tuple):
            return None
        op = type(test.ops[0])
        try:
            return {ast.Lt: lhs < rhs, ast.LtE: lhs <= rhs, ast.Gt: lhs > rhs, ast.GtE: lhs >= rhs, ast.Eq: lhs == rhs, ast.NotEq: lhs != rhs}.get(op)
        except TypeError:
            return None
    if isinstance(test, ast.UnaryOp) and isinstance(test.op, ast.Not):
        t = static_truth(test.operand)
        return None if t is None else not t
    return None


class CFG:
    def __init__(self, fn, may_raise=default_may_raise):
        self.fn = fn
        self.nodes = []
        self.may_raise = may_raise
        self.entry = self._new("entry", label="ENTRY")
        self.exit = self._new("exit", label="EXIT")
        self.raise_exit = self._new("raise", label="RAISE-EXIT")
        ctx = _Ctx(self.exit, None, None, self.raise_exit)
        first = self._block(fn.body, self.exit, ctx)
        self._edge(self.entry, first, "normal")
        self._prune()

    # ------------------------------------------------------------ construction
    def _new(self, kind, stmt=None, label="", tag=None):
        n = Node(len(self.nodes), kind, stmt, label, tag)
        self.nodes.append(n)
        return n

    def _edge(self, a, b, kind):
        if b is None:
            return
        for (x, k) in a.succ:
            if x is b and k == kind:
                return
        a.succ.append((b, kind))
        b.pred.append((a, kind))

    def _block(self, stmts, nxt, ctx, tag=None):
        cur = nxt
        for s in reversed(stmts):
            cur = self._stmt(s, cur, ctx, tag)
        return cur

    def _simple(self, s, nxt, ctx, kind="stmt", tag=None, test=None):
        n = self._new(kind, s, tag=tag)
        self._edge(n, nxt, "normal")
        if self.may_raise(s if test is None else test):
            self._edge(n, ctx.exc, "exc")
        return n

    def _stmt(self, s, nxt, ctx, tag=None):
        if isinstance(s, ast.Return):
            n = self._new("stmt", s, tag=tag)
            if self.may_raise(s.value):
                self._edge(n, ctx.exc, "exc")
            self._edge(n, ctx.ret, "normal")
            return n
        if isinstance(s, ast.Raise):
            n = self._new("stmt", s, tag=tag)
            self._edge(n, ctx.exc, "exc")
            return n
        if isinstance(s, ast.Break):
            n = self._new("stmt", s, tag=tag)
            self._edge(n, ctx.brk, "normal")
            return n
        if isinstance(s, ast.Continue):
            n = self._new("stmt", s, tag=tag)
            self._edge(n, ctx.cont, "normal")
            return n
        if isinstance(s, ast.If):
            st = static_truth(s.test)
            if st is True:
                return self._block(s.body, nxt, ctx, tag)
            if st is False:
                return self._block(s.orelse, nxt, ctx, tag) if s.orelse else nxt
            t = self._new("test", s, tag=tag)
            self._edge(t, self._block(s.body, nxt, ctx, tag), "true")
            self._edge(t, self._block(s.orelse, nxt, ctx, tag) if s.orelse else nxt, "false")
            if self.may_raise(s.test):
                self._edge(t, ctx.exc, "exc")
            return t
        if isinstance(s, ast.While):
            t = self._new("test", s, tag=tag)
            after = self._block(s.orelse, nxt, ctx, tag) if s.orelse else nxt
            lctx = ctx.replace(brk=nxt, cont=t)
            body = self._block(s.body, t, lctx, tag)
            self._edge(t, body, "true")
            const_true = isinstance(s.test, ast.Constant) and bool(s.test.value)
            if not const_true:
                self._edge(t, after, "false")
            if self.may_raise(s.test):
                self._edge(t, ctx.exc, "exc")
            return t
        if isinstance(s, (ast.For, ast.AsyncFor)):
            t = self._new("loop", s, tag=tag)
            after = self._block(s.orelse, nxt, ctx, tag) if s.orelse else nxt
            lctx = ctx.replace(brk=nxt, cont=t)
            body = self._block(s.body, t, lctx, tag)
            self._edge(t, body, "true")
            self._edge(t, after, "false")
            if self.may_raise(s.iter):
                self._edge(t, ctx.exc, "exc")
            return t
        if isinstance(s, (ast.With, ast.AsyncWith)):
            return self._with(s, nxt, ctx, tag)
        if isinstance(s, ast.Try) or s.__class__.__name__ == "TryStar":
            return self._try(s, nxt, ctx, tag)
        if isinstance(s, (ast.FunctionDef, ast.AsyncFunctionDef, ast.ClassDef)):
            n = self._new("stmt", s, tag=tag)
            self._edge(n, nxt, "normal")
            return n
        return self._simple(s, nxt, ctx, tag=tag)

    def _with(self, s, nxt, ctx, tag):
        def exit_copy(target, why):
            if target is None:
                return None
            n = self._new("with_exit", s, tag=why)
            self._edge(n, target, "normal")
            return n
        x_norm = exit_copy(nxt, "normal")
        x_exc = exit_copy(ctx.exc, "exc")
        x_ret = exit_copy(ctx.ret, "return")
        x_brk = exit_copy(ctx.brk, "break")
        x_cont = exit_copy(ctx.cont, "continue")
        bctx = _Ctx(x_ret, x_brk, x_cont, x_exc)
        body = self._block(s.body, x_norm, bctx, tag)
        enter = self._new("with_enter", s, tag=tag)
        self._edge(enter, body, "normal")
        if any(self.may_raise(i.context_expr) for i in s.items) or True:
            # entering may raise (e.g. the context manager's __enter__); nothing was entered then
            self._edge(enter, ctx.exc, "exc")
        return enter

    def _try(self, s, nxt, ctx, tag):
        if s.finalbody:
            f_norm = self._block(s.finalbody, nxt, ctx, "finally:normal")
            f_exc = self._block(s.finalbody, ctx.exc, ctx, "finally:exc")
            f_ret = self._block(s.finalbody, ctx.ret, ctx, "finally:return")
            f_brk = self._block(s.finalbody, ctx.brk, ctx, "finally:break") if ctx.brk is not None else None
            f_cont = self._block(s.finalbody, ctx.cont, ctx, "finally:continue") if ctx.cont is not None else None
        else:
            f_norm, f_exc, f_ret, f_brk, f_cont = nxt, ctx.exc, ctx.ret, ctx.brk, ctx.cont
        ctx2 = _Ctx(f_ret, f_brk, f_cont, f_exc)
        if s.handlers:
            disp = self._new("dispatch", s, label="except-dispatch", tag=tag)
            catch_all = False
            for h in s.handlers:
                hn = self._new("handler", h, tag=tag)
                self._edge(hn, self._block(h.body, f_norm, ctx2, tag), "normal")
                self._edge(disp, hn, "normal")
                if h.type is None:
                    catch_all = True
                else:
                    names = []
                    ts = h.type.elts if isinstance(h.type, ast.Tuple) else [h.type]
                    for t in ts:
                        names.append(t.id if isinstance(t, ast.Name) else getattr(t, "attr", ""))
                    if any(x in CATCH_ALL for x in names):
                        catch_all = True
            if not catch_all:
                self._edge(disp, f_exc, "exc")
            body_exc = disp
        else:
            body_exc = f_exc
        else_entry = self._block(s.orelse, f_norm, ctx2, tag) if s.orelse else f_norm
        ctx3 = ctx2.replace(exc=body_exc)
        return self._block(s.body, else_entry, ctx3, tag)

    def _prune(self):
        reach = set()
        todo = [self.entry]
        while todo:
            n = todo.pop()
            if n.id in reach:
                continue
            reach.add(n.id)
            for (m, _) in n.succ:
                todo.append(m)
        for n in self.nodes:
            n.pred = [(p, k) for (p, k) in n.pred if p.id in reach]
        self.live = [n for n in self.nodes if n.id in reach]

    # ------------------------------------------------------------ queries
    def reachable_from(self, start, avoid=(), edge_ok=None):
        """Nodes reachable from `start` (inclusive) without entering nodes in `avoid`."""
        avoid_ids = {a.id for a in avoid}
        seen = {}
        todo = [start]
        while todo:
            n = todo.pop()
            if n.id in seen or n.id in avoid_ids:
                continue
            seen[n.id] = n
            for (m, k) in n.succ:
                if edge_ok is None or edge_ok(n, m, k):
                    todo.append(m)
        return list(seen.values())

    def path(self, start, goal_pred, avoid=(), edge_ok=None):
        """A shortest path (list of nodes) from start to a node satisfying goal_pred that
        avoids `avoid`; None if there is none."""
        avoid_ids = {a.id for a in avoid}
        prev = {start.id: None}
        order = [start]
        i = 0
        while i < len(order):
            n = order[i]
            i += 1
            if goal_pred(n) and n is not start:
                out = []
                x = n
                while x is not None:
                    out.append(x)
                    x = prev[x.id]
                return list(reversed(out))
            for (m, k) in n.succ:
                if m.id in prev or m.id in avoid_ids:
                    continue
                if edge_ok is not None and not edge_ok(n, m, k):
                    continue
                prev[m.id] = n
                order.append(m)
        return None

    def dominators(self):
        """dict node.id -> set of ids dominating it (including itself)."""
        live = self.live
        allids = {n.id for n in live}
        dom = {n.id: set(allids) for n in live}
        dom[self.entry.id] = {self.entry.id}
        changed = True
        while changed:
            changed = False
            for n in live:
                if n is self.entry:
                    continue
                ps = [dom[p.id] for (p, _) in n.pred if p.id in dom]
                new = set.intersection(*ps) if ps else set()
                new = new | {n.id}
                if new != dom[n.id]:
                    dom[n.id] = new
                    changed = True
        return dom

    def dominates(self, a, b, dom=None):
        dom = dom or self.dominators()
        return a.id in dom.get(b.id, ())

    def must_pass(self, start, through, exits, edge_ok=None):
        """True iff every path from `start` to any node in `exits` passes a node in `through`.
        Returns (ok, witness_path)"""
        exit_ids = {e.id for e in exits}
        p = self.path(start, lambda n: n.id in exit_ids, avoid=through, edge_ok=edge_ok)
        return (p is None), p

    def stmt_nodes(self, pred=None):
        return [n for n in self.live if n.stmt is not None and (pred is None or pred(n))]

    def dataflow(self, init, transfer, join, bottom=None, max_iter=10000):
        """Forward dataflow.  state_in[entry] = init; transfer(node, state, edgekind) ->
        state flowing along that edge (or None to kill the edge)."""
        state = {self.entry.id: init}
        work = [self.entry]
        it = 0
        while work:
            it += 1
            if it > max_iter:
                raise RuntimeError("dataflow did not converge")
            n = work.pop()
            s = state.get(n.id, bottom)
            for (m, k) in n.succ:
                out = transfer(n, s, k)
                if out is None:
                    continue
                if m.id in state:
                    j = join(state[m.id], out)
                    if j != state[m.id]:
                        state[m.id] = j
                        work.append(m)
                else:
                    state[m.id] = out
                    work.append(m)
        return state


def fmt_path(path, limit=12):
    if not path:
        return ""
    items = []
    for n in path:
        t = n.text()
        if n.tag:
            t += " [%s]" % n.tag
        items.append(t)
    if len(items) > limit:
        items = items[: limit // 2] + ["..."] + items[-limit // 2:]
    return " -> ".join(items)


def edge_region(cfg, test, kind):
    """Nodes that can only be reached through the `kind` edge(s) out of `test`."""
    allr = {n.id for n in cfg.reachable_from(cfg.entry)}
    wo = {n.id for n in cfg.reachable_from(cfg.entry, edge_ok=lambda a, b, k: not (a is test and k == kind))}
    return [n for n in cfg.live if n.id in allr and n.id not in wo]


def calls_in(node, name=None, selfonly=False):
    """Call nodes evaluated at CFG node `node` (not inside nested defs)."""
    from .deps import node_exprs
    out = []
    for e in node_exprs(node):
        for n in _walk_no_nested(e):
            if isinstance(n, ast.Call):
                f = n.func
                nm = f.id if isinstance(f, ast.Name) else (f.attr if isinstance(f, ast.Attribute) else None)
                if name is not None and nm != name:
                    continue
                if selfonly and not (isinstance(f, ast.Attribute) and isinstance(f.value, ast.Name) and f.value.id == "self"):
                    continue
                out.append(n)
    return out


def enum_paths(cfg, max_visits=2, follow_exc_to_handlers=True, limit=20000, start=None):
    """All paths entry -> {EXIT, RAISE-EXIT}; each node at most `max_visits` times per path.
    Yields (list of (node, edgekind_taken_out_of_node)), terminal node)."""
    start = start or cfg.entry
    out = []
    count = [0]

    def dfs(n, path, visits):
        if count[0] > limit:
            raise RuntimeError("path enumeration limit exceeded")
        if n is cfg.exit or n is cfg.raise_exit:
            count[0] += 1
            out.append((list(path), n))
            return
        v = visits.get(n.id, 0)
        if v >= max_visits:
            return
        visits[n.id] = v + 1
        for (m, k) in n.succ:
            path.append((n, k))
            dfs(m, path, visits)
            path.pop()
        visits[n.id] = v
    dfs(start, [], {})
    return out
