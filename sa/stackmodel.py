"""The default stack, computed by abstract evaluation of YowStackBuilder's helpers.

Values of the little interpreter: ('cls', ClassInfo), ('tuple', [values]), ('par', [values])
for YowParallelLayer((...)), ('const', v), ('unk', text).  Calls between the static helpers are
bound with the real binding rules (a call that does not bind yields ('err', message)).
"""
import ast

from .calls import bind_problems
from .consts import Evaluator, alts
from .repo import unparse, params_of, AnalysisError

YS = "yowsup/stacks/yowstack.py"
LAYERS = "yowsup/layers/__init__.py"


class StackEval:
    def __init__(self, repo):
        self.repo = repo
        self.mod = repo.module(YS)
        self.builder = repo.cls(YS, "YowStackBuilder")
        self.par = repo.cls(LAYERS, "YowParallelLayer")
        self.errors = []

    # ---------------------------------------------------------------- expressions
    def ev(self, e, env, depth=0):
        if isinstance(e, ast.Constant):
            return ("const", e.value)
        if isinstance(e, ast.Name):
            if e.id in env:
                return env[e.id]
            r = self.repo.resolve_name(self.mod, e.id)
            if r:
                if r[0] == "class":
                    return ("cls", r[1])
                if r[0] == "assign":
                    v = self.ev(r[2], {}, depth + 1)
                    if v[0] == "list":
                        return ("list", v[1], e.id)      # the module-level list object itself (shared, mutable)
                    return v
            return ("unk", e.id)
        if isinstance(e, ast.Tuple):
            return ("tuple", [self.ev(x, env, depth) for x in e.elts])
        if isinstance(e, ast.List):
            return ("list", [self.ev(x, env, depth) for x in e.elts], None)
        if isinstance(e, (ast.GeneratorExp, ast.ListComp)) and len(e.generators) == 1 and not e.generators[0].is_async:
            # `layer for enabled, layer in table if enabled` over a table that evaluates to a tuple of tuples
            g = e.generators[0]
            src = self.ev(g.iter, env, depth)
            if src[0] in ("tuple", "list"):
                out = []
                ok = True
                for item in src[1]:
                    env2 = dict(env)
                    if isinstance(g.target, ast.Name):
                        env2[g.target.id] = item
                    elif isinstance(g.target, (ast.Tuple, ast.List)) and item[0] in ("tuple", "list") and len(item[1]) == len(g.target.elts) and all(isinstance(t, ast.Name) for t in g.target.elts):
                        for t, v_ in zip(g.target.elts, item[1]):
                            env2[t.id] = v_
                    else:
                        ok = False
                        break
                    keep = True
                    for cond in g.ifs:
                        c_ = self.ev(cond, env2, depth)
                        if c_[0] == "const":
                            keep = keep and bool(c_[1])
                        elif c_[0] in ("cls", "inst", "tuple", "par"):
                            keep = keep and True
                        else:
                            ok = False
                    if not ok:
                        break
                    if keep:
                        out.append(self.ev(e.elt, env2, depth))
                if ok:
                    return ("tuple", out) if isinstance(e, ast.GeneratorExp) else ("list", out, None)
            return ("unk", unparse(e))
        if isinstance(e, ast.UnaryOp) and isinstance(e.op, ast.Not):
            v_ = self.ev(e.operand, env, depth)
            if v_[0] == "const":
                return ("const", not v_[1])
        if isinstance(e, ast.Call) and isinstance(e.func, ast.Name) and e.func.id in ("tuple", "list") and len(e.args) == 1:
            a = self.ev(e.args[0], env, depth)
            if a[0] in ("tuple", "list"):
                return ("tuple", list(a[1])) if e.func.id == "tuple" else ("list", list(a[1]), None)
        if isinstance(e, ast.BinOp) and isinstance(e.op, ast.Add):
            l, r = self.ev(e.left, env, depth), self.ev(e.right, env, depth)
            if l[0] == "tuple" and r[0] == "tuple":
                return ("tuple", l[1] + r[1])
            return ("unk", unparse(e))
        if isinstance(e, ast.Subscript) and isinstance(e.slice, ast.Slice):
            b = self.ev(e.value, env, depth)
            if b[0] == "tuple":
                sl = e.slice
                cev = Evaluator(self.repo, self.mod, None)

                def c(x):
                    if x is None:
                        return None
                    a = alts(cev.ev(x))
                    return a[0] if a and len(a) == 1 else "?"
                lo, hi, st = c(sl.lower), c(sl.upper), c(sl.step)
                if "?" not in (lo, hi, st):
                    return ("tuple", b[1][lo:hi:st])
            return ("unk", unparse(e))
        if isinstance(e, ast.IfExp):
            t = self.ev(e.test, env, depth)
            if t[0] == "const":
                return self.ev(e.body if t[1] else e.orelse, env, depth)
            return ("unk", unparse(e))
        if isinstance(e, ast.Call):
            return self.call(e, env, depth)
        if isinstance(e, ast.Attribute):
            c = self.repo.resolve_expr_class(self.mod, e)
            if c is not None:
                return ("cls", c)
        return ("unk", unparse(e))

    def call(self, e, env, depth):
        f = e.func
        c = self.repo.resolve_expr_class(self.mod, f)
        if c is not None:
            if c is self.par or self.par in self.repo.mro(c):
                if e.args:
                    a = self.ev(e.args[0], env, depth)
                    if a[0] == "tuple":
                        return ("par", a[1])
                return ("unk", unparse(e))
            return ("inst", c, e, [self.ev(a, env, depth) for a in e.args])
        if isinstance(f, ast.Attribute):
            owner = self.repo.resolve_expr_class(self.mod, f.value)
            if owner is not None and depth < 6:
                k, m = self.repo.find_method(owner, f.attr)
                if m is not None:
                    return self.run(k, m, e, env, depth + 1)
        return ("unk", unparse(e))

    # ---------------------------------------------------------------- functions
    def run(self, cls, fn, call, env, depth=0, given=None):
        """evaluate fn for the arguments of `call` (evaluated in env) or for `given` (name->value)"""
        static = any(isinstance(d, ast.Name) and d.id in ("staticmethod",) for d in fn.decorator_list)
        params = [a.arg for a in fn.args.args]
        if not static and params:
            params = params[1:]
        local = {}
        defaults = fn.args.defaults
        for p, d in zip(params[len(params) - len(defaults):], defaults):
            local[p] = self.ev(d, {}, depth)
        if call is not None:
            probs = bind_problems(fn, call, implicit_first=not static)
            if probs:
                msg = "%s(...) does not bind to %s.%s: %s" % (unparse(call.func), cls.name, fn.name, "; ".join(probs))
                self.errors.append((call, msg))
                return ("err", msg)
            for p, a in zip(params, call.args):
                local[p] = self.ev(a, env, depth)
            for k in call.keywords:
                if k.arg:
                    local[k.arg] = self.ev(k.value, env, depth)
        if given:
            local.update(given)
        for p in params:
            local.setdefault(p, ("unk", p))
        return self.block(fn.body, local, depth)

    def block(self, stmts, env, depth):
        for s in stmts:
            if isinstance(s, ast.Expr) and isinstance(s.value, ast.Constant):
                continue
            if isinstance(s, ast.Assign) and len(s.targets) == 1 and isinstance(s.targets[0], ast.Name):
                env[s.targets[0].id] = self.ev(s.value, env, depth)
            elif isinstance(s, ast.AugAssign) and isinstance(s.target, ast.Name) and isinstance(s.op, ast.Add):
                l, r = env.get(s.target.id, ("unk", s.target.id)), self.ev(s.value, env, depth)
                if l[0] == "err" or r[0] == "err":
                    env[s.target.id] = l if l[0] == "err" else r
                elif l[0] == "tuple" and r[0] == "tuple":
                    env[s.target.id] = ("tuple", l[1] + r[1])
                elif l[0] == "list" and r[0] in ("tuple", "list"):
                    if l[2] is not None:
                        msg = "`%s += ...` extends the module-level list %s in place: the optional modules of this call stay in it for every later call (modules that were switched off are present, selected ones are duplicated)" % (s.target.id, l[2])
                        self.errors.append((s, msg))
                        env[s.target.id] = ("err", msg)
                    else:
                        env[s.target.id] = ("list", l[1] + r[1], None)
                else:
                    env[s.target.id] = ("unk", unparse(s))
            elif isinstance(s, ast.If):
                t = self.ev(s.test, env, depth)
                if t[0] == "const":
                    r = self.block(s.body if t[1] else s.orelse, env, depth)
                elif t[0] in ("cls", "inst", "tuple", "par"):
                    r = self.block(s.body, env, depth)
                else:
                    return ("unk", "undecided test " + unparse(s.test))
                if r is not None:
                    return r
            elif isinstance(s, ast.Return):
                return self.ev(s.value, env, depth) if s.value is not None else ("const", None)
            elif isinstance(s, ast.For) and not s.orelse:
                # a loop over a table that evaluates to a tuple / list of items: one pass per item
                src = self.ev(s.iter, env, depth)
                if src[0] not in ("tuple", "list"):
                    return ("unk", "loop over " + unparse(s.iter)[:40])
                for item in src[1]:
                    if isinstance(s.target, ast.Name):
                        env[s.target.id] = item
                    elif isinstance(s.target, (ast.Tuple, ast.List)) and item[0] in ("tuple", "list") and len(item[1]) == len(s.target.elts) and all(isinstance(t, ast.Name) for t in s.target.elts):
                        for t, v_ in zip(s.target.elts, item[1]):
                            env[t.id] = v_
                    else:
                        return ("unk", "loop target " + unparse(s.target)[:40])
                    r = self.block(s.body, env, depth)
                    if r is not None:
                        return r
            elif isinstance(s, ast.Expr) and isinstance(s.value, ast.Call) and isinstance(s.value.func, ast.Attribute) and s.value.func.attr in ("append", "extend") \
                    and isinstance(s.value.func.value, ast.Name) and len(s.value.args) == 1 and env.get(s.value.func.value.id, self.ev(s.value.func.value, env, depth))[0] == "list":
                name = s.value.func.value.id
                l = env.get(name) or self.ev(s.value.func.value, env, depth)
                a = self.ev(s.value.args[0], env, depth)
                if l[2] is not None:
                    msg = "`%s.%s(...)` changes the module-level list %s in place: the optional modules of this call stay in it for every later call (modules that were switched off are present, selected ones are duplicated)" % (name, s.value.func.attr, l[2])
                    self.errors.append((s, msg))
                    env[name] = ("err", msg)
                elif s.value.func.attr == "append":
                    l[1].append(a)
                elif a[0] in ("tuple", "list"):
                    l[1].extend(a[1])
                else:
                    return ("unk", "statement " + unparse(s)[:40])
            elif isinstance(s, ast.Expr):
                continue
            else:
                return ("unk", "statement " + unparse(s)[:40])
        return None


FLAGS = ("groups", "media", "privacy", "profiles")


def default_layers(repo, flags):
    """layers (bottom -> top) of getDefaultLayers(**flags) as evaluated from the source"""
    se = StackEval(repo)
    fn = repo.method(YS, "YowStackBuilder", "getDefaultLayers")
    given = {k: ("const", bool(v)) for k, v in flags.items()}
    v = se.run(se.builder, fn, None, {}, given=given)
    return v, se


def flatten(v):
    """[('cls', C) | ('par', [C...])] -> list of layers; None if not fully resolved"""
    if v is None or v[0] != "tuple":
        return None
    out = []
    for x in v[1]:
        if x[0] == "cls":
            out.append(x[1])
        elif x[0] == "par":
            if not all(y[0] == "cls" for y in x[1]):
                return None
            out.append([y[1] for y in x[1]])
        else:
            return None
    return out


def show(v):
    if v is None:
        return "None"
    if v[0] == "cls":
        return v[1].name
    if v[0] in ("tuple", "par"):
        return ("(" if v[0] == "tuple" else "par(") + ", ".join(show(x) for x in v[1]) + ")"
    if v[0] == "inst":
        return v[1].name + "(...)"
    return "%s:%s" % (v[0], v[1])


class StackError(ValueError):
    """the default stack cannot be evaluated; .problems lists (stmt, message) pairs found by the evaluation"""
    def __init__(self, msg, problems=()):
        ValueError.__init__(self, msg)
        self.problems = list(problems)


PUBLISHED = "yowsup/stacks/__init__.py"


def composition_problems(repo):
    """-> (problems, n_checked).  problems: (relpath, function, lineno, construct, message).
    (a) errors raised while evaluating the builder helpers for all 16 flag vectors (non-binding calls, in-place
        extension of a module-level list); (b) published composition constants (yowsup/stacks/__init__.py) and builder
        results in which one layer class occurs twice - a parallel group hands every stanza / entity to both instances,
        so everything that layer answers is answered twice."""
    import itertools
    problems, seen, n = [], set(), 0
    for vec in itertools.product([False, True], repeat=len(FLAGS)):
        v, se = default_layers(repo, dict(zip(FLAGS, vec)))
        n += 1
        for stmt, msg in se.errors:
            key = (getattr(stmt, "lineno", 0), msg)
            if key not in seen:
                seen.add(key)
                problems.append((YS, "YowStackBuilder", getattr(stmt, "lineno", None), unparse(stmt)[:80], msg))
        layers = flatten(v)
        if layers:
            flat = [c for x in layers for c in (x if isinstance(x, list) else [x])]
            dup = sorted({c.name for c in flat if flat.count(c) > 1})
            if dup and ("dup", tuple(dup)) not in seen:
                seen.add(("dup", tuple(dup)))
                problems.append((YS, "YowStackBuilder.getDefaultLayers", None, "flags %s" % "".join("1" if x else "0" for x in vec), "layer class(es) %s occur twice in the composition: everything they answer is answered twice" % ", ".join(dup)))
    m = repo.module(PUBLISHED, required=False) if hasattr(repo, "module") else None
    if m is not None:
        se = StackEval(repo)
        se.mod = m
        for st in m.tree.body:
            if isinstance(st, ast.Assign) and len(st.targets) == 1 and isinstance(st.targets[0], ast.Name) and st.targets[0].id.startswith("YOWSUP_"):
                v = se.ev(st.value, {}, 0)
                n += 1
                if v[0] != "tuple":
                    continue

                def flat_classes(val):
                    out = []
                    for x in val[1]:
                        if x[0] == "cls":
                            out.append(x[1])
                        elif x[0] in ("tuple", "par", "list"):
                            out += flat_classes(x)
                    return out
                cl = flat_classes(v)
                dup = sorted({c.name for c in cl if cl.count(c) > 1})
                if dup:
                    problems.append((PUBLISHED, "", st.lineno, st.targets[0].id, "published composition %s contains %s twice: a stack built from it hands every stanza to both instances, so each answers (two acks / receipts / deliveries)" % (st.targets[0].id, ", ".join(dup))))
    return problems, n
