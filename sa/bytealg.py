"""An algebra of byte strings and of the crypto primitives the media cipher is built from, as a stand-in model for the
abstract interpreter (sa/absint): contents are opaque, lengths are concrete.

A byte string is a sequence of atoms
    ("const", b"...")                      known bytes
    ("sym", name, off, n)                  bytes [off, off+n) of an opaque content `name` (a hashable term)
    ("defer", ctx id, i | "fin")           what the i-th update() / the finalize() of a streaming context returned; the
                                           run update(0..n-1), finalize in order is replaced by the context's result
kept normalised (adjacent pieces merged, empty pieces dropped), so two values are the same bytes for every content iff
their atom lists are equal - that is what `==`, `!=` and hmac.compare_digest decide.  Contents named differently are
taken to differ (scenarios choose their inputs so).

Library objects (all opaque in the repository: `cryptography`, python-axolotl, hmac/hashlib) and their laws:
    HKDFv3().deriveSecrets(k, info, n)          -> HKDF(k, info)[0:n]                     (the expansion is prefix-stable)
    HKDF(SHA256, length=n, salt=None | zeros, info).derive(k)   (cryptography, RFC 5869)
                                                -> HKDF(k, info)[0:n], the same stream: HKDFv3 is RFC 5869 with the all-zero salt
    ByteUtil.split(x, a, b[, c])                -> [x[0:a], x[a:a+b], x[a+b:a+b+c]]
    Cipher(AES(k), CBC(iv)).encryptor()         update*/finalize -> ENC(k, iv, m)         |m| bytes, m a multiple of 16 else ValueError
                          .decryptor()          update*/finalize -> DEC(k, iv, c) ;  DEC(k, iv, ENC(k, iv, m)) = m
    padding.PKCS7(bits).padder()                update*/finalize -> m || f*chr(f), f = B - |m| mod B   (B = bits/8)
                       .unpadder()              update*/finalize -> m without its padding, ValueError unless |m| mod B = 0 and the
                                                last byte f is known, 1 <= f <= B, and the last f bytes all equal f
    hmac.new(k, msg?, digestmod) update* digest -> MAC(k, digest, m)                      32 / 20 / 16 / 64 bytes ; hexdigest / .hex() -> HEX(x)
    HEX(x)[2a:2b] = HEX(x[a:b])
    hashlib.sha1() / md5 / sha256 ... update* digest -> HASH(name, m) ; for a known key HMAC(k, H, m) is written out as
                                                HASH(H, (k' ^ opad) || HASH(H, (k' ^ ipad) || m)), k' = k zero-padded to the block size
    base64.b64encode / b64decode                -> B64(x), b64decode(B64(x)) = x ; constants are computed
Everything else that touches one of these objects is recorded in `notes` (the rule reports UNDECIDED, it does not guess).
"""
import ast

from .absint import Obj, _Raise, C_NONE, C_TRUE, C_FALSE, show

DIGEST_LEN = {"sha256": 32, "sha1": 20, "md5": 16, "sha512": 64, "sha384": 48, "sha224": 28}


def _exc(name, text):
    return _Raise(("ext", name, []), "%s: %s" % (name, text))


class BytesAlg:
    def __init__(self):
        self.meta = {}          # Obj.id -> {"kind": ..., ...}
        self.base_len = {}      # content name -> length
        self.events = []        # ("update"/"finalize", ctx kind) / ("compare", bool) / ("derive", ...) in execution order
        self.notes = []
        self.it = None
        self.interned = {}      # normalised atoms -> the one object standing for these bytes (equal bytes: one dict key)

    # ------------------------------------------------------------------ values
    def _new(self, it, kind, **kw):
        o = Obj(None)
        it.models[o.id] = self
        self.it = it
        m = {"kind": kind}
        m.update(kw)
        self.meta[o.id] = m
        return ("obj", o)

    def kind(self, v):
        if isinstance(v, tuple) and v and v[0] == "obj" and v[1].id in self.meta:
            return self.meta[v[1].id]["kind"]
        return None

    def content(self, it, name, length):
        self.base_len[name] = length
        return self.bt(it, [("sym", name, 0, length)])

    def bt(self, it, atoms):
        atoms = self.normalise(atoms)
        key = tuple(atoms)
        if any(a[0] == "defer" for a in atoms):
            return self._new(it, "bytes", atoms=atoms)          # not final yet: resolved when its context is finalized
        v = self.interned.get(key)
        if v is None:
            v = self.interned[key] = self._new(it, "bytes", atoms=atoms)
        return v

    def atoms_of(self, v):
        """atoms of a bytes-like abstract value (model bytes, constant bytes), or None"""
        if isinstance(v, tuple) and v:
            if v[0] == "c" and isinstance(v[1], (bytes, bytearray)):
                return [("const", bytes(v[1]))] if v[1] else []
            if v[0] == "c" and isinstance(v[1], str) and v[1] == "":
                return []
            if self.kind(v) in ("bytes", "bytearray"):
                m = self.meta[v[1].id]
                if any(a[0] == "defer" for a in m["atoms"]):
                    m["atoms"] = self.normalise(m["atoms"])
                return list(m["atoms"])
        return None

    def canon(self, v):
        a = self.atoms_of(v)
        return tuple(self.normalise(a)) if a is not None else ("?", show(v)[:60])

    @staticmethod
    def alen(a):
        if a[0] == "const":
            return len(a[1])
        if a[0] == "sym":
            return a[3]
        return None

    def total(self, atoms):
        n = 0
        for a in atoms:
            l = self.alen(a)
            if l is None:
                return None
            n += l
        return n

    def normalise(self, atoms):
        out = []
        # deferred pieces of one streaming context, complete and in order -> the context's result
        i = 0
        atoms = list(atoms)
        while i < len(atoms):
            a = atoms[i]
            if a[0] == "defer":
                ctx = self.meta.get(a[1])
                n = len(ctx["inputs"]) if ctx is not None else None
                want = [("defer", a[1], j) for j in range(n)] + [("defer", a[1], "fin")] if ctx is not None and ctx.get("result") is not None else None
                if want is not None and a == want[0] and atoms[i:i + len(want)] == want:
                    out.extend(ctx["result"])
                    i += len(want)
                    continue
            out.append(a)
            i += 1
        res = []
        for a in out:
            if a[0] == "const":
                if not a[1]:
                    continue
                if res and res[-1][0] == "const":
                    res[-1] = ("const", res[-1][1] + a[1])
                    continue
            elif a[0] == "sym":
                if a[3] == 0:
                    continue
                a = self._hexnorm(a)
                if res and res[-1][0] == "sym" and res[-1][1] == a[1] and res[-1][3] is not None and res[-1][2] + res[-1][3] == a[2]:
                    res[-1] = ("sym", a[1], res[-1][2], res[-1][3] + a[3] if a[3] is not None else None)
                    continue
            res.append(a)
        return res

    def _hexnorm(self, a):
        name = a[1]
        if isinstance(name, tuple) and name and name[0] == "HEX" and a[3] is not None and a[2] % 2 == 0 and a[3] % 2 == 0:
            whole = self.base_len.get(name)
            if not (a[2] == 0 and a[3] == whole):
                inner = self.cut(list(name[1]), a[2] // 2, (a[2] + a[3]) // 2)
                if inner is not None:
                    nm = ("HEX", tuple(inner))
                    self.base_len[nm] = a[3]
                    return ("sym", nm, 0, a[3])
        return a

    def cut(self, atoms, lo, hi):
        """atoms of bytes [lo, hi) of a value whose atoms all have known lengths; None otherwise"""
        out = []
        pos = 0
        for a in atoms:
            l = self.alen(a)
            if l is None:
                return None
            s, e = max(lo, pos), min(hi, pos + l)
            if s < e:
                if a[0] == "const":
                    out.append(("const", a[1][s - pos:e - pos]))
                else:
                    out.append(("sym", a[1], a[2] + (s - pos), e - s))
            pos += l
        return self.normalise(out)

    # ------------------------------------------------------------------ interpreter protocol: operators
    def slice(self, it, b, lo, hi, st):
        if self.kind(b) not in ("bytes", "bytearray"):
            return None
        atoms = self.meta[b[1].id]["atoms"]
        n = self.total(atoms)
        vals = []
        for x in (lo, hi, st):
            x = it.concrete(x) if x[0] == "atom" else x
            if x[0] != "c" or not (x[1] is None or isinstance(x[1], int)):
                self.notes.append("slice of a byte string with a bound that is not a known integer")
                return self.bt(it, [("sym", ("SLICE?", id(b[1])), 0, None)])
            vals.append(x[1])
        if n is None or vals[2] not in (None, 1):
            self.notes.append("slice of a byte string of unknown length / with a step")
            return self.bt(it, [("sym", ("SLICE?", id(b[1])), 0, None)])
        s, e, _ = slice(vals[0], vals[1]).indices(n)
        return self.bt(it, self.cut(atoms, s, max(s, e)))

    def index(self, it, b, k):
        if self.kind(b) not in ("bytes", "bytearray"):
            return None
        atoms = self.meta[b[1].id]["atoms"]
        n = self.total(atoms)
        k = it.concrete(k) if k[0] == "atom" else k
        if n is None or k[0] != "c" or not isinstance(k[1], int):
            return ("ext", "byte?", [])
        i = k[1] + n if k[1] < 0 else k[1]
        if not 0 <= i < n:
            raise _exc("IndexError", "index out of range")
        piece = self.cut(atoms, i, i + 1)
        if piece and piece[0][0] == "const":
            return ("c", piece[0][1][0])
        return ("ext", "byte:%s" % (show(("c", str(piece)))[:40],), [])

    def binop(self, it, op, l, r):
        if isinstance(op, ast.Add):
            la, ra = self.atoms_of(l), self.atoms_of(r)
            if la is not None and ra is not None:
                if self.kind(l) == "bytearray":
                    # bytearray + x is a NEW bytearray: a mutable object of its own (`+=` on it later changes it in place)
                    return self._new(it, "bytearray", atoms=self.normalise(list(la) + list(ra)))
                return self.bt(it, la + ra)
            if la is not None or ra is not None:
                raise _exc("TypeError", "can't concat %s to bytes" % (r[0] if la is not None else l[0]))
        if isinstance(op, ast.Mult):
            for x, y in ((l, r), (r, l)):
                xa = self.atoms_of(x)
                if xa is not None and self.kind(x) in ("bytes", "bytearray") and y[0] == "c" and isinstance(y[1], int) and 0 <= y[1] <= 4096:
                    return self.bt(it, xa * y[1])
        return None

    def equal(self, it, a, b):
        ka, kb = self.kind(a), self.kind(b)
        ka, kb = ("bytes" if ka == "bytearray" else ka), ("bytes" if kb == "bytearray" else kb)
        if "bytes" not in (ka, kb):
            if ka is not None and kb is not None:
                return a[1] is b[1]
            return None if (ka is None and kb is None) else False
        aa, ab = self.atoms_of(a), self.atoms_of(b)
        if aa is None or ab is None:
            return False        # bytes never equal None / a number / an object
        r = self.normalise(aa) == self.normalise(ab)
        self.events.append(("compare", r))
        return r

    def iadd(self, it, cur, rhs):
        """`x += y`: a bytearray is extended in place (the object every holder of it sees); bytes get a new value"""
        if self.kind(cur) == "bytearray":
            return self.call(it, cur, "__iadd__", [rhs], {}, {}, 0)
        return None

    def truth(self, it, v):
        if self.kind(v) in ("bytes", "bytearray"):
            n = self.total(self.meta[v[1].id]["atoms"])
            return (n > 0) if n is not None else True
        return True

    def builtin(self, it, name, args, kwargs):
        a0 = args[0]
        if self.kind(a0) in ("bytes", "bytearray"):
            if name == "bytearray" and len(args) == 1:
                return self._new(it, "bytearray", atoms=self.normalise(self.atoms_of(a0)))
            if name == "len":
                n = self.total(self.meta[a0[1].id]["atoms"])
                if n is None:
                    self.notes.append("len() of a byte string of unknown length")
                    return ("fn", "len", [a0])
                return ("c", n)
            if name in ("bytes", "bytearray", "memoryview") and len(args) == 1:
                return self.bt(it, self.meta[a0[1].id]["atoms"])
            if name == "bool":
                return ("c", self.truth(it, a0))
            if name == "type":
                return ("ext", "bytes", [])
            if name == "isinstance":
                return None
        return None

    def join(self, it, sep, items):
        sa = self.atoms_of(sep)
        if sa is None:
            return None
        out = []
        for i, x in enumerate(items):
            xa = self.atoms_of(x)
            if xa is None:
                return None
            if i:
                out += sa
            out += xa
        return self.bt(it, out)

    def get(self, it, b, name, env, depth):
        m = self.meta[b[1].id]
        if m["kind"] in ("hash", "hmac") and name in ("block_size", "digest_size", "name"):
            dn = m.get("name") or m.get("digest")
            if name == "name":
                return ("c", dn)
            if name == "digest_size" and dn in DIGEST_LEN:
                return ("c", DIGEST_LEN[dn])
            if name == "block_size" and dn in DIGEST_LEN:
                return ("c", 128 if dn in ("sha512", "sha384") else 64)
        return ("bound", b, name)

    def set(self, it, b, name, v, env, depth):
        self.notes.append("attribute %s stored on a %s" % (name, self.kind(b)))

    def apply(self, it, fv, args, kwargs, env, depth):
        self.notes.append("a %s object is called" % self.kind(fv))
        return ("fn", "call", [fv])

    # ------------------------------------------------------------------ library entry points
    def hooks(self):
        def extcall(it, label, args, kwargs, env, depth, e):
            leaf = label.split(".")[-1].rstrip("()")
            if leaf == "Cipher":
                alg = args[0] if args else kwargs.get("algorithm")
                mode = args[1] if len(args) > 1 else kwargs.get("mode")
                return self._new(it, "cipher", alg=alg, mode=mode)
            if leaf == "HKDF" and ("length" in kwargs or "info" in kwargs or len(args) >= 2):
                # cryptography's RFC 5869 HKDF(algorithm, length, salt, info[, backend]): with SHA-256 and the default
                # (all-zero) salt it is the very stream python-axolotl's HKDFv3 produces (law listed in the header)
                a_ = kwargs.get("algorithm", args[0] if args else None)
                n_ = kwargs.get("length", args[1] if len(args) > 1 else None)
                salt_ = kwargs.get("salt", args[2] if len(args) > 2 else C_NONE)
                info_ = kwargs.get("info", args[3] if len(args) > 3 else C_NONE)
                n_ = it.concrete(n_) if n_ is not None and n_[0] == "atom" else n_
                sa_ = self.atoms_of(salt_) if salt_ is not None and salt_ != C_NONE else []
                zero_salt = sa_ is not None and all(x[0] == "const" and not any(x[1]) for x in self.normalise(sa_))
                sha256 = a_ is not None and "sha256" in show(a_).lower()
                if n_ is not None and n_[0] == "c" and isinstance(n_[1], int) and zero_salt and sha256:
                    return self._new(it, "hkdf_rfc", length=n_[1], info=info_ if info_ is not None else C_NONE)
                self.notes.append("HKDF with parameters outside the model (algorithm %s, salt %s)" % (show(a_)[:30] if a_ is not None else None, show(salt_)[:30] if salt_ is not None else None))
                return None
            if leaf in ("HKDFv3", "HKDFv2", "HKDF"):
                return self._new(it, "hkdf", version=leaf)
            return None

        def alg(name):
            def h(it, recv, a, k, env, d, e):
                return self._new(it, "alg", name=name, key=a[0] if a else None)
            return h

        def mode(name):
            def h(it, recv, a, k, env, d, e):
                return self._new(it, "mode", name=name, iv=a[0] if a else None)
            return h

        def pkcs7(it, recv, a, k, env, d, e):
            bits = a[0] if a else k.get("block_size")
            bits = it.concrete(bits) if bits is not None and bits[0] == "atom" else bits
            return self._new(it, "pkcs7", bits=bits[1] if bits is not None and bits[0] == "c" else None)

        def hmac_new(it, recv, a, k, env, d, e):
            if not recv[1].split(".")[-1].startswith("hmac"):
                return None
            key = a[0] if a else k.get("key")
            msg = a[1] if len(a) > 1 else k.get("msg")
            dm = a[2] if len(a) > 2 else k.get("digestmod")
            h = self._new(it, "hmac", key=key, digest=self.digest_name(dm), inputs=[])
            if msg is not None and msg != C_NONE:
                self.call(it, h, "update", [msg], {}, env, d)
            return h

        def compare_digest(it, recv, a, k, env, d, e):
            if len(a) == 2:
                r = self.equal(it, a[0], a[1])
                return ("c", bool(r)) if r is not None else None
            return None

        def split(it, recv, a, k, env, d, e):
            if not recv[1].split(".")[-1].startswith("ByteUtil") or len(a) < 3 or self.kind(a[0]) != "bytes":
                return None
            ns = []
            for x in a[1:]:
                x = it.concrete(x) if x[0] == "atom" else x
                if x == C_NONE:
                    continue
                if x[0] != "c" or not isinstance(x[1], int):
                    return None
                ns.append(x[1])
            atoms = self.meta[a[0][1].id]["atoms"]
            out, pos = [], 0
            for n in ns:
                piece = self.cut(atoms, pos, pos + n)
                if piece is None:
                    return None
                out.append(self.bt(it, piece))
                pos += n
            return ("list", out)
        def unpack(it, recv, a, k, env, d, e):
            # struct.unpack of a format made of byte-string fields only ("16s32s32s", pad bytes allowed): the pieces of the
            # byte string, in order - it must be consumed exactly
            if not recv[1].split(".")[-1].startswith("struct") or len(a) != 2 or self.kind(a[1]) not in ("bytes", "bytearray"):
                return None
            f = it.concrete(a[0]) if a[0][0] == "atom" else a[0]
            if f[0] != "c" or not isinstance(f[1], (str, bytes)):
                return None
            ftext = f[1].decode("latin-1") if isinstance(f[1], bytes) else f[1]
            import re as _re
            body = ftext.lstrip("@=<>!")
            items = _re.findall(r"(\d*)([sx])", body)
            if "".join(n + c for n, c in items) != body.replace(" ", ""):
                return None
            atoms = self.meta[a[1][1].id]["atoms"]
            total = self.total(atoms)
            need = sum(int(n or 1) for n, _c in items)
            if total is not None and total != need:
                raise _exc("struct.error", "unpack requires a buffer of %d bytes" % need)
            out, pos = [], 0
            for n, c in items:
                n = int(n or 1)
                if c == "s":
                    piece = self.cut(atoms, pos, pos + n)
                    if piece is None:
                        return None
                    out.append(self.bt(it, piece))
                pos += n
            return ("list", out, False, "tuple")
        unpack.soft = True          # constants are still folded by the interpreter

        def hasher(name):
            def h(it, recv, a, k, env, d, e):
                if not recv[1].split(".")[-1].split(" ")[-1].startswith("hashlib"):
                    return None
                ctx = self._new(it, "hash", name=name, inputs=[])
                if a:
                    self.call(it, ctx, "update", [a[0]], {}, env, d)
                return ctx
            return h

        def hashlib_new(it, recv, a, k, env, d, e):
            return None

        def b64(encode):
            def h(it, recv, a, k, env, d, e):
                if not recv[1].split(".")[-1].split(" ")[-1].startswith("base64") or not a:
                    return None
                x = it.force(a[0]) if hasattr(it, "force") else a[0]
                import base64 as _b
                if x[0] == "c" and isinstance(x[1], (bytes, bytearray, str)):
                    try:
                        return ("c", _b.b64encode(bytes(x[1])) if encode else _b.b64decode(x[1]))
                    except Exception as ex:
                        raise _exc(type(ex).__name__, str(ex))
                atoms = self.atoms_of(x)
                if atoms is None:
                    return None
                atoms = self.normalise(atoms)
                if encode:
                    n = self.total(atoms)
                    nm = ("B64", tuple(atoms))
                    return self.content(it, nm, 4 * ((n + 2) // 3) if n is not None else None)
                if len(atoms) == 1 and atoms[0][0] == "sym" and isinstance(atoms[0][1], tuple) and atoms[0][1][:1] == ("B64",) and atoms[0][2] == 0 and atoms[0][3] == self.base_len.get(atoms[0][1]):
                    return self.bt(it, list(atoms[0][1][1]))        # b64decode(b64encode(x)) = x
                nm = ("UNB64", tuple(atoms))
                return self.content(it, nm, None)
            return h
        def bytearray_(it, e, args, kwargs, env, depth):
            # a bytearray is an object that can be changed in place: modelled as one (append / extend / += are seen by
            # every name that refers to it)
            if not args:
                return self._new(it, "bytearray", atoms=[])
            x = it.force(args[0]) if hasattr(it, "force") else args[0]
            x = it.concrete(x) if x[0] == "atom" else x
            if x[0] == "c" and isinstance(x[1], int) and 0 <= x[1] <= 1 << 16:
                return self._new(it, "bytearray", atoms=self.normalise([("const", bytes(x[1]))]))
            if x[0] == "c" and isinstance(x[1], (list, tuple)) and all(isinstance(y, int) and 0 <= y < 256 for y in x[1]):
                return self._new(it, "bytearray", atoms=self.normalise([("const", bytes(x[1]))]))
            if x[0] == "list" and not (len(x) > 2 and x[2]) and all(y[0] == "c" and isinstance(y[1], int) and 0 <= y[1] < 256 for y in x[1]):
                return self._new(it, "bytearray", atoms=self.normalise([("const", bytes(y[1] for y in x[1]))]))
            xa = self.atoms_of(x)
            if xa is not None:
                return self._new(it, "bytearray", atoms=self.normalise(xa))
            return None
        hk = {"builtin:bytearray": bytearray_, "extcall": extcall, "ext:*.PKCS7": pkcs7, "ext:*.new": hmac_new, "ext:*.compare_digest": compare_digest, "ext:*.split": split, "ext:*.unpack": unpack,
              "ext:*.b64encode": b64(True), "ext:*.b64decode": b64(False), "ext:*.standard_b64encode": b64(True), "ext:*.standard_b64decode": b64(False)}
        for n in DIGEST_LEN:
            hk["ext:*." + n] = hasher(n)
        for n in ("AES", "TripleDES", "Camellia", "ChaCha20", "Blowfish", "ARC4"):
            hk["ext:*." + n] = alg(n)
        for n in ("CBC", "ECB", "CTR", "GCM", "CFB", "OFB"):
            hk["ext:*." + n] = mode(n)
        return hk

    @staticmethod
    def digest_name(dm):
        if dm is None or dm == C_NONE:
            return "md5?"      # hmac's historical default; never what the format wants
        t = show(dm)
        for n in DIGEST_LEN:
            if n in t:
                return n
        return "digest?" + t[:30]

    # ------------------------------------------------------------------ methods
    def call(self, it, recv, name, args, kwargs, env, depth):
        m = self.meta[recv[1].id]
        k = m["kind"]
        if k == "bytearray" and name in ("append", "extend", "clear", "__iadd__"):
            if name == "clear":
                m["atoms"] = []
                return C_NONE
            x = it.concrete(args[0]) if args and args[0][0] == "atom" else (args[0] if args else C_NONE)
            if name == "append":
                if x[0] == "c" and isinstance(x[1], int) and 0 <= x[1] < 256:
                    m["atoms"] = self.normalise(m["atoms"] + [("const", bytes([x[1]]))])
                    return C_NONE
                self.notes.append("bytearray.append of a value that is not a known byte")
                m["atoms"] = self.normalise(m["atoms"] + [("sym", ("BYTE?", len(self.notes)), 0, 1)])
                return C_NONE
            xa = self.atoms_of(x)
            if xa is None and x[0] == "list" and all(y[0] == "c" and isinstance(y[1], int) for y in x[1]):
                xa = [("const", bytes(y[1] for y in x[1]))]
            if xa is None:
                raise _exc("TypeError", "bytearray.%s() wants bytes" % name)
            m["atoms"] = self.normalise(m["atoms"] + xa)
            return recv if name == "__iadd__" else C_NONE
        if k in ("bytes", "bytearray"):
            return self.bytes_method(it, recv, m, name, args, kwargs)
        if k == "hkdf" and name == "deriveSecrets" and len(args) >= 3:
            n = it.concrete(args[2]) if args[2][0] == "atom" else args[2]
            if n[0] != "c" or not isinstance(n[1], int):
                self.notes.append("deriveSecrets with a length that is not a known integer")
                return ("fn", "deriveSecrets", list(args))
            # HKDF output is prefix-stable: the first n bytes of one stream per (key, info)
            nm = ("HKDF", m["version"], self.canon(args[0]), self.canon(args[1]))
            self.events.append(("derive", nm, n[1]))
            self.base_len[nm] = max(self.base_len.get(nm, 0), n[1])
            return self.bt(it, [("sym", nm, 0, n[1])])
        if k == "hkdf_rfc" and name == "derive" and len(args) == 1:
            info = m["info"]
            nm = ("HKDF", "HKDFv3", self.canon(args[0]), self.canon(info) if info != C_NONE else ())
            self.events.append(("derive", nm, m["length"]))
            self.base_len[nm] = max(self.base_len.get(nm, 0), m["length"])
            return self.bt(it, [("sym", nm, 0, m["length"])])
        if k == "cipher" and name in ("encryptor", "decryptor"):
            alg, mode = m["alg"], m["mode"]
            am = self.meta.get(alg[1].id) if self.kind(alg) == "alg" else None
            mm = self.meta.get(mode[1].id) if self.kind(mode) == "mode" else None
            return self._new(it, "cipherctx", enc=(name == "encryptor"), alg=am["name"] if am else "?", key=am["key"] if am else None,
                             mode=mm["name"] if mm else "?", iv=mm["iv"] if mm else None, inputs=[], result=None)
        if k == "pkcs7" and name in ("padder", "unpadder"):
            return self._new(it, "padctx", pad=(name == "padder"), bits=m["bits"], inputs=[], result=None)
        if k in ("cipherctx", "padctx"):
            if name == "update" and len(args) == 1:
                a = self.atoms_of(args[0])
                if a is None:
                    raise _exc("TypeError", "update() wants bytes")
                if m["result"] is not None:
                    raise _exc("AlreadyFinalized", "context was already finalized")
                m["inputs"].append(a)
                self.events.append(("update", "%s%s" % (k, "" if k == "padctx" else (":enc" if m["enc"] else ":dec"))))
                return self.bt(it, [("defer", recv[1].id, len(m["inputs"]) - 1)])
            if name == "finalize" and not args:
                if m["result"] is not None:
                    raise _exc("AlreadyFinalized", "context was already finalized")
                m["result"] = self.finish(it, m)
                self.events.append(("finalize", k))
                return self.bt(it, [("defer", recv[1].id, "fin")])
        if k == "hash":
            if name == "update" and len(args) == 1:
                a = self.atoms_of(args[0])
                if a is None:
                    raise _exc("TypeError", "hash.update() wants bytes")
                m["inputs"].append(a)
                return C_NONE
            if name in ("digest", "hexdigest") and not args:
                msg = self.normalise([x for part in m["inputs"] for x in part])
                v = self.content(it, ("HASH", m["name"], tuple(msg)), DIGEST_LEN[m["name"]])
                return v if name == "digest" else self.hexed(it, v)
            if name == "copy":
                return self._new(it, "hash", name=m["name"], inputs=list(m["inputs"]))
        if k == "hmac":
            if name in ("digest", "hexdigest") and not args and m["digest"] in DIGEST_LEN:
                key = self.atoms_of(m["key"])
                block = 128 if m["digest"] in ("sha512", "sha384") else 64
                if key is not None and all(a[0] == "const" for a in key):
                    # a known key: HMAC(K, m) = H((K' ^ opad) || H((K' ^ ipad) || m)),  K' = K zero-padded to the block
                    # (longer keys are hashed first: that case keeps the opaque form)
                    kb = b"".join(a[1] for a in key)
                    if len(kb) <= block:
                        kb = kb + b"\x00" * (block - len(kb))
                        msg = self.normalise([x for part in m["inputs"] for x in part])
                        inner = ("HASH", m["digest"], tuple(self.normalise([("const", bytes(b ^ 0x36 for b in kb))] + msg)))
                        self.base_len[inner] = DIGEST_LEN[m["digest"]]
                        outer = ("HASH", m["digest"], tuple(self.normalise([("const", bytes(b ^ 0x5C for b in kb)), ("sym", inner, 0, DIGEST_LEN[m["digest"]])])))
                        v = self.content(it, outer, DIGEST_LEN[m["digest"]])
                        return v if name == "digest" else self.hexed(it, v)
            if name == "update" and len(args) == 1:
                a = self.atoms_of(args[0])
                if a is None:
                    raise _exc("TypeError", "hmac.update() wants bytes")
                m["inputs"].append(a)
                return C_NONE
            if name in ("digest", "hexdigest") and not args:
                msg = self.normalise([x for part in m["inputs"] for x in part])
                n = DIGEST_LEN.get(m["digest"])
                nm = ("MAC", self.canon(m["key"]), m["digest"], tuple(msg))
                if n is None:
                    self.notes.append("HMAC with an unrecognised digest (%s)" % m["digest"])
                    n = 32
                v = self.content(it, nm, n)
                return v if name == "digest" else self.hexed(it, v)
            if name == "copy":
                return self._new(it, "hmac", key=m["key"], digest=m["digest"], inputs=list(m["inputs"]))
        self.notes.append("%s.%s() is outside the model" % (k, name))
        return ("fn", name, [recv] + list(args))

    def hexed(self, it, v):
        atoms = self.normalise(self.meta[v[1].id]["atoms"])
        n = self.total(atoms)
        nm = ("HEX", tuple(atoms))
        return self.content(it, nm, 2 * n if n is not None else None)

    def bytes_method(self, it, recv, m, name, args, kwargs):
        atoms = m["atoms"]
        if name == "hex" and not args:
            return self.hexed(it, recv)
        if name in ("encode", "decode") and len(args) <= 2:
            return recv          # text of ASCII content and its bytes are the same sequence here

        if name in ("rstrip", "lstrip", "strip") and len(args) <= 1:
            chars = self.atoms_of(args[0]) if args else [("const", b" \t\n\r\x0b\x0c")]
            if chars is None or any(a[0] != "const" for a in chars):
                nm = (name.upper(), tuple(atoms), "?")
                return self.bt(it, [("sym", nm, 0, None)])
            cs = b"".join(a[1] for a in chars)
            out = list(atoms)
            if name in ("rstrip", "strip"):
                while out:
                    a = out[-1]
                    if a[0] != "const":
                        # what precedes is opaque: whether it ends in one of the stripped bytes depends on the content
                        return self.bt(it, [("sym", ("RSTRIP", tuple(atoms), cs), 0, None)])
                    s = a[1].rstrip(cs)
                    if s:
                        out[-1] = ("const", s)
                        break
                    out.pop()
            if name in ("lstrip", "strip"):
                while out:
                    a = out[0]
                    if a[0] != "const":
                        return self.bt(it, [("sym", ("LSTRIP", tuple(atoms), cs), 0, None)])
                    s = a[1].lstrip(cs)
                    if s:
                        out[0] = ("const", s)
                        break
                    out.pop(0)
            return self.bt(it, out)
        if name == "count" and len(args) == 1:
            a0 = it.concrete(args[0]) if args[0][0] == "atom" else args[0]
            if all(a[0] == "const" for a in atoms) and a0[0] == "c":
                whole = b"".join(a[1] for a in atoms)
                try:
                    return ("c", whole.count(a0[1]))
                except TypeError:
                    pass
            self.notes.append("count() over opaque content")
            return ("fn", "count", [recv] + list(args))
        if name in ("startswith", "endswith") and len(args) == 1:
            p = self.atoms_of(args[0])
            n, pn = self.total(atoms), self.total(p) if p is not None else None
            if p is not None and n is not None and pn is not None:
                if pn > n:
                    return C_FALSE
                piece = self.cut(atoms, 0, pn) if name == "startswith" else self.cut(atoms, n - pn, n)
                if piece == self.normalise(p):
                    return C_TRUE
                if all(a[0] == "const" for a in piece) and all(a[0] == "const" for a in p):
                    return C_FALSE
            self.notes.append("%s() over opaque content" % name)
            return ("fn", name, [recv] + list(args))
        if name == "__len__":
            return self.builtin(it, "len", [recv], {})
        self.notes.append("bytes.%s() is outside the model" % name)
        return ("fn", name, [recv] + list(args))

    def finish(self, it, m):
        msg = self.normalise([x for part in m["inputs"] for x in part])
        n = self.total(msg)
        if m["kind"] == "padctx":
            B = (m["bits"] // 8) if isinstance(m["bits"], int) and m["bits"] % 8 == 0 else None
            if B is None or n is None:
                self.notes.append("PKCS7 with an unknown block size / over data of unknown length")
                return [("sym", ("PAD?", tuple(msg)), 0, None)]
            if m["pad"]:
                f = B - n % B
                return self.normalise(msg + [("const", bytes([f]) * f)])
            if n == 0 or n % B:
                raise _exc("ValueError", "Invalid padding bytes.")
            last = self.cut(msg, n - 1, n)
            if not last or last[0][0] != "const":
                # the last byte is content the model does not know: the result depends on it
                return [("sym", ("UNPAD", tuple(msg)), 0, None)]
            f = last[0][1][0]
            tail = self.cut(msg, n - f, n) if 1 <= f <= B and f <= n else None
            if tail is None or tail != [("const", bytes([f]) * f)]:
                if tail is not None and any(a[0] != "const" for a in tail):
                    return [("sym", ("UNPAD", tuple(msg)), 0, None)]
                raise _exc("ValueError", "Invalid padding bytes.")
            return self.cut(msg, 0, n - f)
        # cipher context
        key, iv = self.canon(m["key"]) if m["key"] is not None else None, self.canon(m["iv"]) if m["iv"] is not None else None
        block = 16 if m["alg"] in ("AES", "Camellia") else 8
        if m["mode"] in ("CBC", "ECB"):
            if n is None:
                self.notes.append("block cipher over data of unknown length")
            elif n % block:
                raise _exc("ValueError", "The length of the provided data is not a multiple of the block length.")
        if not m["enc"] and len(msg) == 1 and msg[0][0] == "sym" and isinstance(msg[0][1], tuple) and msg[0][1][:1] == ("ENC",) \
                and msg[0][1][1:5] == (m["alg"], m["mode"], key, iv) and msg[0][2] == 0 and msg[0][3] == self.base_len.get(msg[0][1]):
            return list(msg[0][1][5])            # DEC(k, iv, ENC(k, iv, m)) = m
        nm = ("ENC" if m["enc"] else "DEC", m["alg"], m["mode"], key, iv, tuple(msg))
        self.base_len[nm] = n
        return [("sym", nm, 0, n)] if n != 0 else []
