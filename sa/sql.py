"""Tokeniser for the SQL string literals used by the key store."""
import re

_WS = re.compile(r"\s+")


class Stmt:
    def __init__(self, text):
        self.text = text
        self.verb = None          # CREATE_TABLE CREATE_INDEX INSERT UPDATE DELETE SELECT
        self.table = None
        self.columns = []         # INSERT column list / SELECT expressions / UPDATE SET columns / CREATE columns
        self.values = []          # INSERT VALUES entries (text)
        self.where = []           # [(column, op, rhs text)]
        self.where_connectors = []
        self.or_replace = False
        self.unique = []          # CREATE TABLE: unique columns; CREATE UNIQUE INDEX: columns
        self.placeholders = text.count("?")
        self.coltypes = {}
        self.set_values = []

    def __repr__(self):
        return "<SQL %s %s cols=%s where=%s>" % (self.verb, self.table, self.columns, self.where)


def _split_top(s, sep=","):
    out, depth, cur = [], 0, ""
    for ch in s:
        if ch == "(":
            depth += 1
        elif ch == ")":
            depth -= 1
        if ch == sep and depth == 0:
            out.append(cur.strip())
            cur = ""
        else:
            cur += ch
    if cur.strip():
        out.append(cur.strip())
    return out


def _where(st, w):
    w = w.strip().rstrip(";")
    parts = re.split(r"\s+(AND|OR)\s+", w, flags=re.I)
    for i, p in enumerate(parts):
        if i % 2 == 1:
            st.where_connectors.append(p.upper())
            continue
        m = re.match(r"^\(?\s*([A-Za-z_][A-Za-z_0-9]*)\s*(=|!=|<>|<=|>=|<|>|\s+is\s+not\s+|\s+is\s+)\s*(.+?)\s*\)?$", p.strip(), flags=re.I)
        if m:
            st.where.append((m.group(1), _WS.sub(" ", m.group(2).strip().upper()), m.group(3).strip()))
            continue
        # a column wrapped in a function: COALESCE(col, 0) = 0, IFNULL(col, x) = ?  -> the term is about `col`
        m = re.match(r"^([A-Za-z_]+)\s*\(\s*([A-Za-z_][A-Za-z_0-9]*)\s*(,[^()]*)?\)\s*(=|!=|<>|<=|>=|<|>|\s+is\s+not\s+|\s+is\s+)\s*(.+?)$", p.strip(), flags=re.I)
        if m and m.group(1).lower() in ("coalesce", "ifnull", "abs", "lower", "upper", "length"):
            st.where.append((m.group(2), _WS.sub(" ", m.group(4).strip().upper()), m.group(5).strip()))
            st.where_wrapped = getattr(st, "where_wrapped", []) + [(m.group(2), m.group(1).lower(), (m.group(3) or "").lstrip(",").strip())]
        else:
            st.where.append((None, None, p.strip()))


def parse(text):
    t = _WS.sub(" ", text.strip())
    st = Stmt(t)
    u = t.upper()
    m = re.match(r"^CREATE TABLE (IF NOT EXISTS )?([A-Za-z_0-9]+)\s*\((.*)\)\s*;?$", t, flags=re.I)
    if m:
        st.verb, st.table = "CREATE_TABLE", m.group(2)
        for col in _split_top(m.group(3)):
            toks = col.split()
            if not toks:
                continue
            st.columns.append(toks[0])
            st.coltypes[toks[0]] = " ".join(toks[1:]).upper()
            if "UNIQUE" in col.upper() or "PRIMARY KEY" in col.upper():
                st.unique.append(toks[0])
        return st
    m = re.match(r"^CREATE (UNIQUE )?INDEX (IF NOT EXISTS )?([A-Za-z_0-9]+) ON ([A-Za-z_0-9]+)\s*\((.*)\)\s*;?$", t, flags=re.I)
    if m:
        st.verb, st.table = "CREATE_INDEX", m.group(4)
        st.columns = [c.strip() for c in m.group(5).split(",")]
        if m.group(1):
            st.unique = list(st.columns)
        return st
    m = re.match(r"^INSERT (OR REPLACE )?INTO ([A-Za-z_0-9]+)\s*\((.*?)\)\s*VALUES\s*\((.*)\)\s*;?$", t, flags=re.I)
    if m:
        st.verb, st.table = "INSERT", m.group(2)
        st.or_replace = bool(m.group(1))
        st.columns = [c.strip() for c in m.group(3).split(",")]
        st.values = [v.strip() for v in _split_top(m.group(4))]
        return st
    m = re.match(r"^DELETE FROM ([A-Za-z_0-9]+)( WHERE (.*))?$", t, flags=re.I)
    if m:
        st.verb, st.table = "DELETE", m.group(1)
        if m.group(3):
            _where(st, m.group(3))
        return st
    m = re.match(r"^UPDATE ([A-Za-z_0-9]+) SET (.*?)( WHERE (.*))?$", t, flags=re.I)
    if m:
        st.verb, st.table = "UPDATE", m.group(1)
        for a in _split_top(m.group(2)):
            k, _, v = a.partition("=")
            st.columns.append(k.strip())
            st.set_values.append(v.strip())
        if m.group(4):
            _where(st, m.group(4))
        return st
    m = re.match(r"^SELECT (.*?) FROM ([A-Za-z_0-9]+)( WHERE (.*))?$", t, flags=re.I)
    if m:
        st.verb, st.table = "SELECT", m.group(2)
        st.columns = [c.strip() for c in _split_top(m.group(1))]
        if m.group(4):
            _where(st, m.group(4))
        return st
    return st


def is_sql(text):
    return bool(re.match(r"^\s*(CREATE|INSERT|DELETE|UPDATE|SELECT)\s", text, flags=re.I))


def eval_where(st, row, bound, distinct=None):
    """truth of a statement's WHERE clause for one row, in SQL's three-valued logic folded to {True, False, None=unknown}.
    row: column -> None (NULL) | a python constant | ("sym", name) an opaque non-NULL value;  bound: values for the `?`
    placeholders of the WHERE clause, in order (python constants, None, or ("sym", name)).  A statement without a WHERE
    clause matches every row.  Comparisons of two different opaque values, or of an opaque value with a constant, are
    unknown unless they are the same symbol (then equal)."""
    bound = list(bound)
    if not st.where:
        return True
    wrapped = {c_: (f_, d_) for (c_, f_, d_) in getattr(st, "where_wrapped", [])}

    def operand(text):
        t = text.strip()
        if t == "?":
            return bound.pop(0) if bound else ("unk",)
        if t.upper() == "NULL":
            return None
        try:
            return int(t)
        except ValueError:
            pass
        try:
            return float(t)
        except ValueError:
            pass
        if len(t) >= 2 and t[0] == t[-1] and t[0] in "'\"":
            return t[1:-1]
        return ("unk",)

    def eq(a, b):
        if isinstance(a, tuple) or isinstance(b, tuple):
            if a == ("unk",) or b == ("unk",):
                return None
            for x, y in ((a, b), (b, a)):
                # an opaque value known to differ from certain constants (a contact's id is never the local row's -1)
                if isinstance(x, tuple) and x[0] == "sym" and not isinstance(y, tuple) and distinct and y in distinct.get(x[1], ()):
                    return False
            if isinstance(a, tuple) and isinstance(b, tuple):
                return True if a == b else None
            return None
        return a == b
    vals = []
    for (c_, o, r) in st.where:
        if c_ is None or c_ not in row:
            vals.append(None)
            operand(r) if r.strip() == "?" else None
            continue
        v = row[c_]
        if c_ in wrapped and wrapped[c_][0] in ("coalesce", "ifnull") and v is None:
            v = operand(wrapped[c_][1])
        rhs = operand(r)
        o = o.upper()
        if o == "IS":
            vals.append((v is None) if rhs is None else (None if v is None else eq(v, rhs)) if rhs is not None and v is not None else (v is None and rhs is None))
        elif o == "IS NOT":
            if rhs is None:
                vals.append(v is not None)
            else:
                e_ = eq(v, rhs) if v is not None else False
                vals.append(None if e_ is None else not e_)
        elif v is None or rhs is None:
            vals.append(False)           # a comparison with NULL is not true
        elif o == "=":
            vals.append(eq(v, rhs))
        elif o in ("!=", "<>"):
            e_ = eq(v, rhs)
            vals.append(None if e_ is None else not e_)
        else:
            vals.append(None)
    out = vals[0]
    for cn, v in zip(st.where_connectors, vals[1:]):
        if cn == "OR":
            out = True if (out is True or v is True) else (False if (out is False and v is False) else None)
        else:
            out = False if (out is False or v is False) else (True if (out is True and v is True) else None)
    return out


# ------------------------------------------------------------------ scalar queries over a tiny in-memory database
class SqlUnsupported(Exception):
    pass


def _tokens(text):
    out = []
    for m in re.finditer(r"\s*(?:(\d+)|'([^']*)'|([A-Za-z_][A-Za-z_0-9]*)|(<>|!=|<=|>=|[(),=*<>?]))", text):
        if m.group(1) is not None:
            out.append(("num", int(m.group(1))))
        elif m.group(2) is not None:
            out.append(("str", m.group(2)))
        elif m.group(3) is not None:
            out.append(("id", m.group(3)))
        else:
            out.append(("op", m.group(4)))
    if "".join(t for t in re.sub(r"\s+", "", text)) and sum(1 for _ in out) == 0:
        raise SqlUnsupported(text)
    return out


def query(db, text, params=()):
    """rows of `SELECT e1, e2 ... [FROM table [WHERE col = literal | ?]]` over db = {table: [row dict]}; expressions are
    numbers, strings, NULL, columns, scalar subqueries in parentheses, COALESCE / IFNULL, max / min (an aggregate over the
    FROM table with one argument, SQLite's scalar max / min with several).  Anything else raises SqlUnsupported."""
    toks = _tokens(text.strip().rstrip(";"))
    params = list(params)
    pos = [0]

    def peek():
        return toks[pos[0]] if pos[0] < len(toks) else (None, None)

    def take(kind=None, val=None):
        t = peek()
        if t[0] is None or (kind and t[0] != kind) or (val is not None and str(t[1]).upper() != val):
            raise SqlUnsupported("at token %d of %r" % (pos[0], text))
        pos[0] += 1
        return t

    def kw(word):
        t = peek()
        return t[0] == "id" and t[1].upper() == word

    def aliased():
        e_ = expr_ast()
        if kw("AS"):
            take()
            return ("as", take("id")[1], e_)
        return e_

    def compound():
        parts = [select()]
        dedupe = False
        while kw("UNION"):
            take()
            if kw("ALL"):
                take()
            else:
                dedupe = True
            parts.append(select())
        return parts[0] if len(parts) == 1 else ("compound", parts, dedupe)

    def select():
        take("id", "SELECT")
        exprs = [aliased()]
        while peek() == ("op", ","):
            take()
            exprs.append(aliased())
        table, cond = None, None
        if kw("FROM"):
            take()
            if peek() == ("op", "("):
                take()
                table = ("derived", compound())
                take("op", ")")
                if kw("AS"):
                    take()
                    take("id")
            else:
                table = take("id")[1]
            if kw("WHERE"):
                take()
                col = take("id")[1]
                take("op", "=")
                t = take()
                if t == ("op", "?"):
                    if not params:
                        raise SqlUnsupported("placeholder without a parameter")
                    cond = (col, params.pop(0))
                elif t[0] in ("num", "str"):
                    cond = (col, t[1])
                else:
                    raise SqlUnsupported("WHERE operand")
        return ("select", exprs, table, cond)

    def expr_ast():
        t = peek()
        if t == ("op", "("):
            take()
            if kw("SELECT"):
                s_ = select()
                take("op", ")")
                return ("sub", s_)
            e_ = expr_ast()
            take("op", ")")
            return e_
        if t[0] == "num" or t[0] == "str":
            take()
            return ("lit", t[1])
        if t == ("op", "?"):
            take()
            if not params:
                raise SqlUnsupported("placeholder without a parameter")
            return ("lit", params.pop(0))
        if t[0] == "id":
            take()
            if t[1].upper() == "NULL":
                return ("lit", None)
            if peek() == ("op", "("):
                take()
                args = []
                if peek() == ("op", "*"):
                    take()
                    args.append(("star",))
                elif peek() != ("op", ")"):
                    args.append(expr_ast())
                    while peek() == ("op", ","):
                        take()
                        args.append(expr_ast())
                take("op", ")")
                return ("call", t[1].lower(), args)
            return ("col", t[1])
        raise SqlUnsupported("expression at token %d of %r" % (pos[0], text))

    def has_agg(e):
        if e[0] == "as":
            return has_agg(e[2])
        return e[0] == "call" and ((e[1] in ("max", "min") and len(e[2]) == 1) or e[1] == "count" or any(has_agg(a) for a in e[2]))

    def ev(e, row, rows):
        if e[0] == "as":
            return ev(e[2], row, rows)
        if e[0] == "lit":
            return e[1]
        if e[0] == "col":
            if row is None or e[1] not in row:
                raise SqlUnsupported("column %s" % e[1])
            return row[e[1]]
        if e[0] == "sub":
            r = run(e[1])
            return r[0][0] if r else None
        if e[0] == "call":
            f, args = e[1], e[2]
            if f in ("max", "min") and len(args) == 1:
                vals = [v for v in (ev(args[0], r_, None) for r_ in rows or []) if v is not None]
                return (max(vals) if f == "max" else min(vals)) if vals else None
            if f == "count":
                return len(rows or [])
            vs = [ev(a, row, rows) for a in args]
            if f in ("max", "min"):
                if any(v is None for v in vs):
                    return None        # SQLite's scalar max / min give NULL as soon as one argument is NULL
                return max(vs) if f == "max" else min(vs)
            if f in ("coalesce", "ifnull"):
                for v in vs:
                    if v is not None:
                        return v
                return None
        raise SqlUnsupported(str(e))

    def names_of(s_):
        if s_[0] == "compound":
            return names_of(s_[1][0])
        return [e[1] if e[0] in ("as", "col") else "#%d" % i for i, e in enumerate(s_[1])]

    def run(s_):
        if s_[0] == "compound":
            out = []
            for part in s_[1]:
                got = run(part)
                if got and out and len(got[0]) != len(out[0]):
                    raise SqlUnsupported("UNION of different widths")
                out += got
            if s_[2]:
                seen_, ded = set(), []
                for r_ in out:
                    if r_ not in seen_:
                        seen_.add(r_)
                        ded.append(r_)
                out = ded
            return out
        _k, exprs, table, cond = s_
        if table is None:
            return [tuple(ev(e, None, None) for e in exprs)]
        if isinstance(table, tuple):
            cols = names_of(table[1])
            source = [dict(zip(cols, r_)) for r_ in run(table[1])]
        elif table not in db:
            raise SqlUnsupported("table %s" % table)
        else:
            source = db[table]
        rows = [r for r in source if cond is None or r.get(cond[0]) == cond[1]]
        if any(has_agg(e) for e in exprs):
            return [tuple(ev(e, None, rows) for e in exprs)]
        return [tuple(ev(e, r, rows) for e in exprs) for r in rows]
    s0 = compound()
    if pos[0] != len(toks):
        raise SqlUnsupported("trailing tokens in %r" % text)
    return run(s0)
