"""Semantic dispatch of the stanza decoder / encoder on a control byte.

Instead of matching the shape of an if/elif chain, the function is abstractly executed once per value of the
finite domain of the dispatch variable (a byte: 0..255), everything else (the rest of the frame, the token dictionary)
kept opaque.  What is observed is the *trace* of primitive codec calls (readInt8, readInt20, readArray, readString, ...)
and the outcome (returns / raises), per cell of the undecided tests.  A table-driven dispatcher, a chain of `if`s, a
helper that the branches were moved into, or reordered branches give the same traces.
"""
import ast
import re

from .absint import Interp, Obj, enumerate_cells, Budget, _Raise, _Return, show

DEC_PRIMS = re.compile(r"^(readInt\d+|readArray|readPacked8|readString|readList|readAttributes|getToken|getTokenDouble|nextTreeInternal|nextTree)$")
ENC_PRIMS = re.compile(r"^(writeInt\d+|writeString|writeBytes|writeJid|writeToken|writeListStart|writeAttributes|writeInternal|tryPackAndWriteHeader|encodeString)$")


class Cell:
    def __init__(self, trace, outcome, value, cell, data=None):
        self.trace = trace          # [(name, args as shown)]
        self.outcome = outcome      # 'ret' | 'raise'
        self.value = value          # abstract return value / raise text
        self.cell = cell
        self.data = data            # what was appended to the output list (encoder)

    @property
    def names(self):
        return [t[0] for t in self.trace]

    def first_int(self, prefix="readInt"):
        """bit width of the first integer read (a bare data.pop(0) counts as 8 bits)"""
        for n, _a, _v in self.trace:
            if n == "pop":
                return 8
            m = re.match(r"^%s(\d+)$" % prefix, n)
            if m:
                return int(m.group(1))
        return None


class Branches:
    """result for one value of the dispatch variable"""

    def __init__(self, cells):
        self.cells = cells

    @property
    def accepts(self):
        return any(c.outcome == "ret" for c in self.cells)

    @property
    def always_raises(self):
        return bool(self.cells) and all(c.outcome == "raise" for c in self.cells)

    def first_int(self, prefix="readInt"):
        s = {c.first_int(prefix) for c in self.cells if c.outcome == "ret"}
        return s.pop() if len(s) == 1 else (None if not s else tuple(sorted(s, key=str)))

    def count(self, name):
        return max([sum(1 for n in c.names if n == name) for c in self.cells] or [0])

    def calls(self, name):
        return [t for c in self.cells for t in c.trace if t[0] == name]

    def signature(self):
        return sorted({(tuple(c.names), c.outcome) for c in self.cells})


def _opaque(name):
    return ("ext", name, [])


def first_use_index(fn, var):
    """index in fn.body of the first top-level statement that reads `var` after it was assigned"""
    assigned = False
    for i, s in enumerate(fn.body):
        loads = any(isinstance(n, ast.Name) and n.id == var and isinstance(n.ctx, ast.Load) for n in ast.walk(s))
        stores = any(isinstance(n, ast.Name) and n.id == var and isinstance(n.ctx, ast.Store) for n in ast.walk(s))
        if assigned and loads:
            return i
        if stores:
            assigned = True
    return None


class Dispatch:
    def __init__(self, repo, cls, fn, var, prims=DEC_PRIMS, execute=(), max_cells=64, fields=None):
        """`var`: a parameter of fn, or a local (the function is then executed from the first statement that reads it,
        every other local opaque).  `execute`: primitive names that are traced AND executed."""
        self.repo, self.cls, self.fn, self.var = repo, cls, fn, var
        self.prims, self.execute, self.max_cells = prims, set(execute), max_cells
        self.fields = fields or {}
        self.params = [a.arg for a in fn.args.args][1:]
        self.cache = {}
        self.start = None
        if var not in self.params:
            self.start = first_use_index(fn, var)
            if self.start is None:
                raise LookupError("dispatch variable %s is never read after assignment in %s" % (var, fn.name))

    def hooks(self, trace):
        hooks = {}
        names = set()
        for k in self.repo.mro(self.cls):
            names |= {n for n in k.methods if self.prims.match(n)}

        def mk(name):
            def h(it, fn, owner, self_val, args, kwargs):
                if fn is self.fn and not trace.get("entered"):
                    trace["entered"] = True
                    return None
                ent = [name, [show(a) for a in args], None]
                trace["t"].append(ent)
                if name in self.execute:
                    return None
                return ("fn", name + "()", list(args))
            return h
        for n in names:
            hooks["fn:" + n] = mk(n)
        return hooks

    def run_value(self, k):
        if k in self.cache:
            return self.cache[k]
        repo, cls, fn = self.repo, self.cls, self.fn

        def run(cell, domains):
            trace = {"t": []}
            hooks = self.hooks(trace)

            def pop_hook(it, recv, args, kwargs, env, depth, e):
                trace["t"].append(["pop", [show(a) for a in args], None])
                return ("fn", "pop()", [])
            hooks["ext:data.pop"] = pop_hook
            it = Interp(repo, cell, domains, hooks=hooks)
            o = Obj(cls)
            # the constructor may build dispatch tables (`self._readers = {252: self.readInt8, ...}`): run it
            try:
                kk, init = repo.find_method(cls, "__init__")
                if init is not None:
                    it.call_function(init, kk, ("obj", o), [_opaque("tokdict")], {}, depth=0)
            except Exception:
                pass
            trace["t"][:] = []
            o.fields["tokenDictionary"] = _opaque("tokdict")
            for f_, v_ in self.fields.items():
                o.fields[f_] = v_
            out = ("list", [])
            res = {}
            try:
                if self.start is None:
                    args = []
                    for p in self.params:
                        if p == self.var:
                            args.append(("c", k))
                        elif p == "data":
                            args.append(_opaque("data") if self.prims is DEC_PRIMS else out)
                        else:
                            args.append(_opaque(p))
                    trace["entered"] = False
                    v = it.call_function(fn, cls, ("obj", o), args, {}, depth=0)
                else:
                    env = {"@owner": cls, "@fname": fn.name, "@module": cls.module, "@self": "self"}
                    sname = fn.args.args[0].arg
                    env[sname] = ("obj", o)
                    env["@self"] = sname
                    for p in self.params:
                        env[p] = _opaque(p) if (p != "data" or self.prims is DEC_PRIMS) else out
                    for s in fn.body[:self.start]:
                        for n in ast.walk(s):
                            if isinstance(n, ast.Name) and isinstance(n.ctx, ast.Store):
                                env.setdefault(n.id, ("fn", n.id, []))
                    env[self.var] = ("c", k)
                    trace["entered"] = True
                    try:
                        it.block(fn.body[self.start:], env, 1)
                        v = ("c", None)
                    except _Return as r:
                        v = r.v
                res = Cell(trace["t"], "ret", v, dict(cell), out[1])
            except _Raise as r:
                res = Cell(trace["t"], "raise", r.text, dict(cell), out[1])
            return res, it
        cells = enumerate_cells(run, {}, max_cells=self.max_cells)
        b = Branches([r for _c, r in cells])
        self.cache[k] = b
        return b

    def table(self, values=range(256)):
        return {k: self.run_value(k) for k in values}
