"""Runs all rules of one property on one tree."""
import importlib
import time

from . import report
from .repo import Repo, AnalysisError


def analyse(prop, tier="quick", root=None, overlay=None):
    """-> Ctx with all instances (no I/O besides reading the tree)."""
    repo = Repo(root, overlay=overlay)
    ctx = report.Ctx(repo, prop, tier)
    if repo.parse_errors:
        for rel, err in repo.parse_errors:
            ctx.undecided(prop + ".parse", (rel, "", None), "module", "does not parse: " + err)
    mod = importlib.import_module("sa.rules." + prop.lower())
    try:
        mod.run(ctx)
    except AnalysisError as e:
        ctx.undecided(prop + ".anchor", ("", "", None), "anchor", str(e))
    return ctx


def run_property(prop, tier="quick", root=None, seed=0, write=True, t0=None):
    t0 = t0 or time.time()
    ctx = analyse(prop, tier, root)
    st = None
    if tier == "thorough" and root is None:
        from . import selftest
        st = selftest.run(prop)
    return report.finish(ctx, t0, seed=seed, selftest=st, write=write)
