"""Flow-sensitive local dependency analysis on a CFG.

For every CFG node, which *sources* each local variable may depend on:
  ('param', name)   a parameter of the function (its value at entry)
  ('attr', 'X')     a read of self.X (opaque)
  ('free', name)    a name that is not a local (global / builtin)
  ('call', text)    result of a call the analysis does not see through (receiver/args are
                    added as well, so the call marker only says "transformed")
Constants contribute nothing.
"""
import ast

from .repo import unparse


def _targets(t):
    if isinstance(t, ast.Name):
        yield t.id
    elif isinstance(t, (ast.Tuple, ast.List)):
        for e in t.elts:
            yield from _targets(e)
    elif isinstance(t, ast.Starred):
        yield from _targets(t.value)


class Deps:
    def __init__(self, cfg, selfname="self", opaque_calls=True):
        self.cfg = cfg
        self.selfname = selfname
        fn = cfg.fn
        a = fn.args
        params = [x.arg for x in a.posonlyargs + a.args + a.kwonlyargs]
        if a.vararg:
            params.append(a.vararg.arg)
        if a.kwarg:
            params.append(a.kwarg.arg)
        init = {p: frozenset([("param", p)]) for p in params}
        self.params = params
        self.state = cfg.dataflow(init, self._transfer, self._join)

    @staticmethod
    def _join(a, b):
        if a == b:
            return a
        out = dict(a)
        for k, v in b.items():
            out[k] = out.get(k, frozenset()) | v
        return out

    def src(self, e, st):
        """sources of expression e under state st"""
        out = set()
        self._src(e, st, out)
        return frozenset(out)

    def _src(self, e, st, out):
        if e is None or isinstance(e, ast.Constant):
            return
        if isinstance(e, ast.Name):
            if e.id in st:
                out |= st[e.id]
            elif e.id != self.selfname:
                out.add(("free", e.id))
            return
        if isinstance(e, ast.Attribute):
            if isinstance(e.value, ast.Name) and e.value.id == self.selfname:
                out.add(("attr", e.attr))
                return
            self._src(e.value, st, out)
            return
        if isinstance(e, ast.Call):
            f = e.func
            if isinstance(f, ast.Attribute):
                self._src(f.value, st, out)
                if isinstance(f.value, ast.Name) and f.value.id == self.selfname:
                    out.add(("selfcall", f.attr))
            elif isinstance(f, ast.Name):
                pass
            else:
                self._src(f, st, out)
            for a in e.args:
                self._src(a.value if isinstance(a, ast.Starred) else a, st, out)
            for k in e.keywords:
                self._src(k.value, st, out)
            return
        if isinstance(e, (ast.Lambda, ast.ListComp, ast.SetComp, ast.DictComp, ast.GeneratorExp)):
            for n in ast.walk(e):
                if isinstance(n, ast.Name) and isinstance(n.ctx, ast.Load):
                    if n.id in st:
                        out |= st[n.id]
                elif isinstance(n, ast.Attribute) and isinstance(n.value, ast.Name) and n.value.id == self.selfname:
                    out.add(("attr", n.attr))
            return
        for c in ast.iter_child_nodes(e):
            if isinstance(c, ast.expr):
                self._src(c, st, out)
            elif isinstance(c, ast.slice if hasattr(ast, "slice") else ()):
                self._src(c, st, out)

    def _transfer(self, node, st, kind):
        s = node.stmt
        if s is None or st is None:
            return st
        if kind == "exc":
            return st
        if node.kind == "stmt":
            if isinstance(s, ast.Assign):
                v = self.src(s.value, st)
                new = dict(st)
                for t in s.targets:
                    for name in _targets(t):
                        new[name] = v
                return new
            if isinstance(s, ast.AugAssign):
                new = dict(st)
                for name in _targets(s.target):
                    new[name] = st.get(name, frozenset()) | self.src(s.value, st)
                return new
            if isinstance(s, ast.AnnAssign) and s.value is not None:
                new = dict(st)
                for name in _targets(s.target):
                    new[name] = self.src(s.value, st)
                return new
            return st
        if node.kind == "loop" and kind == "true":
            new = dict(st)
            v = self.src(s.iter, st)
            for name in _targets(s.target):
                new[name] = v
            return new
        if node.kind == "with_enter":
            new = dict(st)
            for it in s.items:
                if it.optional_vars is not None:
                    for name in _targets(it.optional_vars):
                        new[name] = self.src(it.context_expr, st)
            return new
        if node.kind == "handler":
            if s.name:
                new = dict(st)
                new[s.name] = frozenset([("exc", unparse(s.type) if s.type else "")])
                return new
        return st

    def at(self, node):
        return self.state.get(node.id, {})

    def expr_sources(self, node, expr):
        return self.src(expr, self.at(node))


def node_exprs(node):
    """the expressions evaluated *at* a CFG node (test of if/while, iter of for, the whole simple stmt)"""
    s = node.stmt
    if s is None:
        return []
    if node.kind == "test":
        return [s.test]
    if node.kind == "loop":
        return [s.iter]
    if node.kind in ("with_enter",):
        return [i.context_expr for i in s.items]
    if node.kind in ("with_exit", "dispatch", "handler"):
        return []
    if isinstance(s, (ast.FunctionDef, ast.AsyncFunctionDef, ast.ClassDef)):
        return []
    return [s]
