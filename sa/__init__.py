"""Static analyser for tgalal/yowsup (stdlib ast only).  See /verif/DESIGN.md."""
