"""Abstract evaluation of pure constant expressions.

Values: a Python constant (int/str/bytes/bool/None/tuple/list/dict of constants) wrapped in
`K`, a finite set of alternatives `Alt`, or `UNK`.  Only side-effect-free constructs are
evaluated; anything else is UNK (which never *produces* a violation by itself).
"""
import ast
import operator
import struct


class _Unk:
    def __repr__(self):
        return "UNK"

    def __bool__(self):
        return False


UNK = _Unk()


class K:
    __slots__ = ("v",)

    def __init__(self, v):
        self.v = v

    def __repr__(self):
        return "K(%r)" % (self.v,)

    def __eq__(self, o):
        return isinstance(o, K) and type(o.v) is type(self.v) and o.v == self.v

    def __hash__(self):
        try:
            return hash((type(self.v).__name__, self.v))
        except TypeError:
            return hash(repr(self.v))


class Alt:
    """finite set of alternative constants"""
    __slots__ = ("vs",)

    def __init__(self, vs):
        self.vs = list(vs)

    def __repr__(self):
        return "Alt(%r)" % (self.vs,)


def alts(x):
    """-> list of python values, or None if unknown"""
    if isinstance(x, K):
        return [x.v]
    if isinstance(x, Alt):
        return [k.v for k in x.vs]
    return None


def mk(vals):
    out = []
    for v in vals:
        k = K(v)
        if k not in out:
            out.append(k)
    if len(out) == 1:
        return out[0]
    return Alt(out)


_BIN = {
    ast.Add: operator.add, ast.Sub: operator.sub, ast.Mult: operator.mul, ast.FloorDiv: operator.floordiv,
    ast.Mod: operator.mod, ast.LShift: operator.lshift, ast.RShift: operator.rshift, ast.BitOr: operator.or_,
    ast.BitAnd: operator.and_, ast.BitXor: operator.xor, ast.Pow: operator.pow, ast.Div: operator.truediv,
}
_CMP = {
    ast.Eq: operator.eq, ast.NotEq: operator.ne, ast.Lt: operator.lt, ast.LtE: operator.le,
    ast.Gt: operator.gt, ast.GtE: operator.ge, ast.Is: operator.is_, ast.IsNot: operator.is_not,
    ast.In: lambda a, b: a in b, ast.NotIn: lambda a, b: a not in b,
}


class Evaluator:
    """ceval(expr, env) with name lookup through: env (locals), class constants along the
    MRO (self.X, self.__class__.X, Cls.X), module-level assignments, imported names."""

    def __init__(self, repo, module=None, cls=None, env=None, depth=0, class_scope=None):
        self.repo = repo
        self.module = module
        self.cls = cls
        self.env = env or {}
        self.depth = depth
        self.class_scope = class_scope   # ClassInfo whose body the expression is written in (bare names see its constants)

    def sub(self, module=None, cls=None, env=None, class_scope=None):
        return Evaluator(self.repo, module or self.module, cls if cls is not None else self.cls, env or {}, self.depth + 1, class_scope)

    def class_const(self, cls, name):
        """value of the class-level constant `name` of cls (looked up along the MRO)"""
        k, expr = self.repo.class_const(cls, name)
        if expr is None:
            return UNK
        return self.sub(module=k.module, cls=cls, class_scope=k).ev(expr)

    def ev(self, e):
        if self.depth > 12:
            return UNK
        try:
            return self._ev(e)
        except RecursionError:
            return UNK
        except Exception:
            return UNK

    def _lift(self, f, *args):
        lists = [alts(a) for a in args]
        if any(l is None for l in lists):
            return UNK
        res = []
        n = 1
        for l in lists:
            n *= len(l)
        if n > 64:
            return UNK
        import itertools
        for combo in itertools.product(*lists):
            res.append(f(*combo))
        return mk(res)

    def _ev(self, e):
        if isinstance(e, ast.Constant):
            return K(e.value)
        if isinstance(e, ast.Name):
            if e.id in self.env:
                return self.env[e.id]
            if e.id in ("True", "False", "None"):
                return K({"True": True, "False": False, "None": None}[e.id])
            if self.class_scope is not None and e.id in self.class_scope.consts:
                return self.sub(module=self.class_scope.module, cls=self.cls, class_scope=self.class_scope).ev(self.class_scope.consts[e.id])
            if self.module is not None:
                r = self.repo.resolve_name(self.module, e.id)
                if r and r[0] == "assign":
                    return self.sub(module=r[1], cls=None).ev(r[2])
            return UNK
        if isinstance(e, (ast.Tuple, ast.List)):
            vals = [self.ev(x) for x in e.elts]
            f = tuple if isinstance(e, ast.Tuple) else list
            return self._lift(lambda *a: f(a), *vals)
        if isinstance(e, ast.Dict):
            if any(k is None for k in e.keys):
                return UNK
            ks = [self.ev(k) for k in e.keys]
            vs = [self.ev(v) for v in e.values]
            n = len(ks)
            return self._lift(lambda *a: dict(zip(a[:n], a[n:])), *(ks + vs))
        if isinstance(e, ast.BinOp) and type(e.op) in _BIN:
            return self._lift(_BIN[type(e.op)], self.ev(e.left), self.ev(e.right))
        if isinstance(e, ast.UnaryOp):
            v = self.ev(e.operand)
            if isinstance(e.op, ast.USub):
                return self._lift(operator.neg, v)
            if isinstance(e.op, ast.Not):
                return self._lift(operator.not_, v)
            if isinstance(e.op, ast.Invert):
                return self._lift(operator.invert, v)
            return UNK
        if isinstance(e, ast.BoolOp):
            vals = [self.ev(x) for x in e.values]
            if isinstance(e.op, ast.Or):
                def f(*a):
                    for x in a:
                        if x:
                            return x
                    return a[-1]
            else:
                def f(*a):
                    for x in a:
                        if not x:
                            return x
                    return a[-1]
            # short-circuit with a definite first operand
            first = alts(vals[0])
            if first is not None and len(first) == 1:
                if isinstance(e.op, ast.Or) and first[0]:
                    return vals[0]
                if isinstance(e.op, ast.And) and not first[0]:
                    return vals[0]
            return self._lift(f, *vals)
        if isinstance(e, ast.IfExp):
            t = alts(self.ev(e.test))
            if t is not None and len(t) == 1:
                return self.ev(e.body if t[0] else e.orelse)
            a, b = alts(self.ev(e.body)), alts(self.ev(e.orelse))
            if a is None or b is None:
                return UNK
            return mk(a + b)
        if isinstance(e, ast.Compare) and len(e.ops) == 1 and type(e.ops[0]) in _CMP:
            return self._lift(_CMP[type(e.ops[0])], self.ev(e.left), self.ev(e.comparators[0]))
        if isinstance(e, ast.Compare) and all(type(o) in _CMP for o in e.ops):
            vals = [self.ev(e.left)] + [self.ev(c) for c in e.comparators]
            ops = [_CMP[type(o)] for o in e.ops]

            def chain(*a):
                return all(op(x, y) for op, x, y in zip(ops, a, a[1:]))
            return self._lift(chain, *vals)
        if isinstance(e, ast.Subscript):
            base = self.ev(e.value)
            sl = e.slice
            if isinstance(sl, ast.Slice):
                lo = self.ev(sl.lower) if sl.lower else K(None)
                hi = self.ev(sl.upper) if sl.upper else K(None)
                st = self.ev(sl.step) if sl.step else K(None)
                return self._lift(lambda b, l, h, s: b[l:h:s], base, lo, hi, st)
            return self._lift(lambda b, i: b[i], base, self.ev(sl))
        if isinstance(e, ast.Attribute):
            return self._attr(e)
        if isinstance(e, ast.Call):
            return self._call(e)
        if isinstance(e, ast.JoinedStr):
            return UNK
        return UNK

    def _attr(self, e):
        # self.X / self.__class__.X / cls.X / Cls.X / module.X / Cls.Inner.X
        v = e.value
        if isinstance(v, ast.Name) and v.id in ("self", "cls") and self.cls is not None and v.id not in self.env:
            if e.attr in self.repo.instance_assigned(self.cls):
                return UNK     # instance attribute shadows any class-level default
            k, expr = self.repo.class_const(self.cls, e.attr)
            if expr is not None:
                return self.sub(module=k.module, cls=self.cls, class_scope=k).ev(expr)
            return UNK
        if isinstance(v, ast.Attribute) and v.attr == "__class__" and isinstance(v.value, ast.Name) and v.value.id == "self" and self.cls is not None:
            k, expr = self.repo.class_const(self.cls, e.attr)
            if expr is not None:
                return self.sub(module=k.module, cls=self.cls, class_scope=k).ev(expr)
            return UNK
        if self.module is not None:
            c = self.repo.resolve_expr_class(self.module, v)
            if c is not None:
                k, expr = self.repo.class_const(c, e.attr)
                if expr is not None:
                    return self.sub(module=k.module, cls=c, class_scope=k).ev(expr)
                return UNK
            m = self.repo.resolve_expr_module(self.module, v)
            if m is not None:
                r = self.repo.resolve_name(m, e.attr)
                if r and r[0] == "assign":
                    return self.sub(module=r[1], cls=None).ev(r[2])
        return UNK

    def _call(self, e):
        f = e.func
        if e.keywords:
            return UNK
        args = [self.ev(a) for a in e.args]
        if isinstance(f, ast.Name):
            if f.id == "len" and len(args) == 1:
                return self._lift(len, args[0])
            if f.id in ("int", "str", "bool", "tuple", "list", "bytes", "ord", "chr", "min", "max", "abs", "sorted", "bytearray"):
                fn = {"int": int, "str": str, "bool": bool, "tuple": tuple, "list": list, "bytes": bytes, "ord": ord,
                      "chr": chr, "min": min, "max": max, "abs": abs, "sorted": sorted, "bytearray": lambda *a: bytes(bytearray(*a))}[f.id]
                return self._lift(fn, *args)
            if f.id == "range":
                return self._lift(lambda *a: tuple(range(*a)) if len(range(*a)) < 5000 else (_ for _ in ()).throw(ValueError()), *args)
        if isinstance(f, ast.Attribute) and isinstance(f.value, ast.Name) and f.value.id == "self" and self.cls is not None:
            # self.m(args) where m is a one-line `return <expr>` method: evaluate the expression
            k, m = self.repo.find_method(self.cls, f.attr)
            if m is not None:
                body = [s for s in m.body if not (isinstance(s, ast.Expr) and isinstance(s.value, ast.Constant))]
                ps = [a.arg for a in m.args.args][1:]
                if len(body) == 1 and isinstance(body[0], ast.Return) and body[0].value is not None and len(ps) == len(args):
                    return self.sub(module=k.module, cls=self.cls, env=dict(zip(ps, args))).ev(body[0].value)
            return UNK
        if isinstance(f, ast.Attribute):
            if isinstance(f.value, ast.Name) and f.value.id == "struct" and f.attr == "calcsize":
                return self._lift(struct.calcsize, *args)
            recv = self.ev(f.value)
            if f.attr in ("encode", "decode", "lower", "upper", "join", "format", "strip", "split", "keys", "values", "items"):
                def m(r, *a):
                    x = getattr(r, f.attr)(*a)
                    if f.attr in ("keys", "values", "items"):
                        x = tuple(x)
                    return x
                return self._lift(m, recv, *args)
        return UNK


def const_value(repo, module, cls, expr, env=None):
    return Evaluator(repo, module, cls, env or {}).ev(expr)


def single(x):
    """the python value if x is a single constant else raises KeyError-like None sentinel"""
    if isinstance(x, K):
        return True, x.v
    return False, None


RAISES = object()


def eval_simple_function(repo, cls, fn, argvals, depth=0):
    """Abstractly evaluate a small pure method (if / return / raise / simple assignments) for
    constant arguments.  -> K / Alt / UNK / RAISES."""
    ps = [a.arg for a in fn.args.args]
    if ps and ps[0] in ("self", "cls"):
        ps = ps[1:]
    env = dict(zip(ps, argvals))
    ev = Evaluator(repo, cls.module if cls is not None else None, cls, env)

    def block(stmts):
        for s in stmts:
            if isinstance(s, ast.Expr) and isinstance(s.value, ast.Constant):
                continue
            if isinstance(s, ast.Return):
                if s.value is None:
                    return K(None)
                v = s.value
                # return self.other(args)  -> evaluate callee
                if isinstance(v, ast.Call) and isinstance(v.func, ast.Attribute) and isinstance(v.func.value, ast.Name) \
                        and v.func.value.id == "self" and cls is not None and depth < 4:
                    k, m = repo.find_method(cls, v.func.attr)
                    if m is not None:
                        return eval_simple_function(repo, cls, m, [ev.ev(a) for a in v.args], depth + 1)
                return ev.ev(v)
            if isinstance(s, ast.Raise):
                return RAISES
            if isinstance(s, ast.If):
                t = alts(ev.ev(s.test))
                if t is None or len(t) != 1:
                    return UNK
                r = block(s.body if t[0] else s.orelse)
                if r is not None:
                    return r
                continue
            if isinstance(s, ast.Assign) and len(s.targets) == 1 and isinstance(s.targets[0], ast.Name):
                env[s.targets[0].id] = ev.ev(s.value)
                continue
            return UNK
        return None
    r = block(fn.body)
    r = K(None) if r is None else r
    if depth == 0 and r is UNK and all(isinstance(a, K) for a in argvals):
        # outside this evaluator's statement forms (a table lookup, str.find, a loop, a helper): the abstract interpreter
        # executes the method on the same constants
        r2 = run_const(repo, cls, fn, [a.v for a in argvals])
        if r2[0] == "ret":
            return K(r2[1])
        if r2[0] == "raise":
            return RAISES
    return r


def run_const(repo, cls, fn, args, kwargs=None):
    """abstract execution (sa/absint) of a method for constant arguments on a fresh object of `cls` (its constructor is
    run first when it takes no arguments) -> ('ret', python value) | ('raise', text) | ('unknown', why)"""
    from .absint import Interp, Obj, _Raise, Budget, NeedAtom, DomainGrew
    it = Interp(repo, {}, {})
    self_val = None
    try:
        if cls is not None:
            k, init = repo.find_method(cls, "__init__")
            if init is None or len(init.args.args) - len(init.args.defaults) <= 1:
                self_val = it.construct(cls, [], {}, {"@module": cls.module, "@owner": None}, 0, None)
            else:
                self_val = ("obj", Obj(cls))
        decs = [d.id for d in getattr(fn, "decorator_list", []) if isinstance(d, ast.Name)]
        if "staticmethod" in decs:
            self_val = None
        elif "classmethod" in decs:
            self_val = ("cls", cls)
        v = it.call_function(fn, cls, self_val, [("c", a) for a in args], {k_: ("c", v_) for k_, v_ in (kwargs or {}).items()}, depth=0)
    except _Raise as r:
        return ("raise", getattr(r, "text", str(r)))
    except (NeedAtom, Budget, DomainGrew) as x:
        return ("unknown", "undecided test %s" % (x,))
    v = it.force(v) if hasattr(it, "force") else v
    if v[0] == "c":
        return ("ret", v[1])
    if v[0] == "list" and not (len(v) > 2 and v[2]) and all(x[0] == "c" for x in v[1]):
        return ("ret", [x[1] for x in v[1]])
    return ("unknown", "non-constant result %s" % (v,))
