"""A stand-in for google.protobuf message classes and objects inside the abstract interpreter (sa/absint).

The generated *_pb2 modules are data (Descriptor(...) calls); the message classes themselves are built by the library at
import time and have no source to interpret.  This model gives the interpreter the part of their behaviour the
repository's converters rely on, driven by the descriptors read from the generated modules:

  Message() / Message.Nested()        a fresh message object of that type
  m.f = v                             scalar field: stored, m (and every ancestor) becomes present; None / a container ->
                                      TypeError; a field the descriptor does not have -> AttributeError; a message-typed or
                                      repeated field -> AttributeError (protobuf forbids assigning them)
  m.f                                 stored value; unset scalar -> the opaque default `default:T.f`; message-typed field ->
                                      the (absent until modified) child object; repeated -> the field's list
  m.HasField("f")                     scalar: stored; message-typed: child modified / merged into; unknown or repeated -> ValueError
  m.sub.MergeFrom(x) / CopyFrom(x)    fieldwise merge (repeated fields are extended, as protobuf does), sub becomes present;
                                      x of another message type -> TypeError
  m.rep[:] = items / append / extend  list operations of the interpreter
  m.SerializeToString()               an opaque value carrying a snapshot; Message.ParseFromString / FromString restore it
  m.ClearField("f") / Clear()

Anything else is recorded in `unmodelled` (the rule reports UNDECIDED rather than guessing).
"""
from .absint import Obj, _Raise, C_NONE

INSTANCE_METHODS = {"HasField", "MergeFrom", "CopyFrom", "SerializeToString", "ParseFromString", "ClearField", "Clear", "SetInParent",
                    "IsInitialized", "ByteSize", "ListFields", "WhichOneof", "SerializePartialToString", "MergeFromString"}


def _exc(name, text):
    return _Raise(("ext", name, []), "%s: %s" % (name, text))


class ProtoModel:
    def __init__(self, descs):
        self.descs = descs
        self.meta = {}           # Obj.id -> {"type", "parent": (Obj, field) | None, "touched": bool, "reads": set()}
        self.unmodelled = []
        self.n_set = self.n_get = self.n_has = 0
        self.serial = 0
        self.accessed = set()    # (message type, field) read, written or asked for by the code under analysis

    # ---- wiring
    def hooks(self):
        return {"resolve": self.resolve}

    def resolve(self, it, module, name, expr):
        if module.relpath.endswith("_pb2.py") and name in self.descs:
            return self.cls_value(it, name)
        return None

    def cls_value(self, it, tname):
        o = Obj(None)
        o.fields["@protocls"] = ("c", tname)
        it.models[o.id] = self
        return ("obj", o)

    def new(self, it, tname, parent=None):
        o = Obj(None)
        o.fields["@proto"] = ("c", tname)
        it.models[o.id] = self
        self.meta[o.id] = {"type": tname, "parent": parent, "touched": False, "reads": set()}
        return ("obj", o)

    def is_proto(self, v):
        return isinstance(v, tuple) and v and v[0] == "obj" and v[1].id in self.meta

    def type_of(self, v):
        return self.meta[v[1].id]["type"]

    def touch(self, o):
        while o is not None:
            m = self.meta[o.id]
            m["touched"] = True
            o = m["parent"][0] if m["parent"] else None

    def present_fields(self, o):
        """names of the fields an object carries on the wire"""
        out = []
        for k, v in o.fields.items():
            if k.startswith("@"):
                continue
            if self.is_proto(v):
                if self.meta[v[1].id]["touched"]:
                    out.append(k)
            elif v[0] == "list":
                if v[1]:
                    out.append(k)
            else:
                out.append(k)
        return out

    # ---- interpreter protocol
    def get(self, it, b, name, env, depth):
        o = b[1]
        if "@protocls" in o.fields:
            t = o.fields["@protocls"][1] + "." + name
            if t in self.descs:
                return self.cls_value(it, t)
            if name == "FromString":
                return ("bound", b, name)
            if name in ("DESCRIPTOR", "__name__", "__module__"):
                return ("ext", "%s.%s" % (o.fields["@protocls"][1], name), [])
            raise _exc("AttributeError", "message class %s has no attribute %r" % (o.fields["@protocls"][1], name))
        m = self.meta[o.id]
        if name in INSTANCE_METHODS:
            return ("bound", b, name)
        if name == "__class__":
            return self.cls_value(it, m["type"])
        if name == "DESCRIPTOR":
            return ("ext", "%s.DESCRIPTOR" % m["type"], [])
        fields = self.descs.get(m["type"])
        if fields is None:
            # a message type whose descriptor is not among the parsed ones: every field is an opaque scalar
            self.unmodelled.append("field %r of undescribed message type %s" % (name, m["type"]))
            return o.fields.get(name, ("ext", "default:%s.%s" % (m["type"], name), []))
        f = fields.get(name)
        if f is None:
            raise _exc("AttributeError", "%s has no field %r" % (m["type"], name))
        self.n_get += 1
        self.accessed.add((m["type"], name))
        m["reads"].add(name)
        if name in o.fields:
            return o.fields[name]
        if f["label"] == 3:
            o.fields[name] = ("list", [])
            return o.fields[name]
        if f["msg"]:
            o.fields[name] = self.new(it, f["msg"], parent=(o, name))
            return o.fields[name]
        return ("ext", "default:%s.%s" % (m["type"], name), [])

    def set(self, it, b, name, v, env, depth):
        o = b[1]
        if "@protocls" in o.fields:
            return
        m = self.meta[o.id]
        fields = self.descs.get(m["type"])
        if fields is None:
            o.fields[name] = v
            self.touch(o)
            return
        f = fields.get(name)
        if f is None:
            raise _exc("AttributeError", "%s has no field %r (assignment)" % (m["type"], name))
        if f["label"] == 3 or f["msg"]:
            raise _exc("AttributeError", "assignment not allowed to %s field %r of %s" % ("repeated" if f["label"] == 3 else "composite", name, m["type"]))
        v = it.force(v) if hasattr(it, "force") else v
        if v == C_NONE:
            raise _exc("TypeError", "None assigned to scalar field %s.%s" % (m["type"], name))
        if v[0] in ("list", "dict", "obj", "node", "cls", "closure", "bound"):
            raise _exc("TypeError", "a %s assigned to scalar field %s.%s" % (v[0], m["type"], name))
        self.n_set += 1
        self.accessed.add((m["type"], name))
        o.fields[name] = v
        self.touch(o)

    def apply(self, it, fv, args, kwargs, env, depth):
        o = fv[1]
        if "@protocls" not in o.fields:
            raise _exc("TypeError", "message object is not callable")
        t = o.fields["@protocls"][1]
        inst = self.new(it, t)
        for k, v in kwargs.items():
            f = self.descs.get(t, {}).get(k)
            if f is None:
                raise _exc("ValueError", "%s() has no field %r" % (t, k))
            if f["label"] == 3:
                lst = self.get(it, inst, k, env, depth)
                lst[1].extend(it.iterate(v) or [("fn", "star", [v])])
            elif f["msg"]:
                child = self.get(it, inst, k, env, depth)
                if self.is_proto(v):
                    self.merge(it, child[1], v[1])
                    self.touch(child[1])
                else:
                    raise _exc("TypeError", "%s(%s=...) wants a message" % (t, k))
            else:
                self.set(it, inst, k, v, env, depth)
        return inst

    def call(self, it, recv, name, args, kwargs, env, depth):
        o = recv[1]
        if "@protocls" in o.fields:
            if name == "FromString" and args:
                inst = self.new(it, o.fields["@protocls"][1])
                self.parse(it, inst[1], args[0])
                return inst
            self.unmodelled.append("class method %s" % name)
            return ("fn", name, list(args))
        m = self.meta[o.id]
        t = m["type"]
        if name == "HasField":
            self.n_has += 1
            a = it.concrete(args[0]) if args else None
            if a is None or a[0] != "c" or not isinstance(a[1], str):
                self.unmodelled.append("HasField with a non-constant field name")
                return ("fn", "HasField", [recv] + list(args))
            fields = self.descs.get(t)
            if fields is None:
                return ("c", a[1] in o.fields)
            f = fields.get(a[1])
            if f is None:
                raise _exc("ValueError", "%s has no field %r (HasField)" % (t, a[1]))
            if f["label"] == 3:
                raise _exc("ValueError", "HasField on repeated field %s.%s" % (t, a[1]))
            m["reads"].add(a[1])
            self.accessed.add((t, a[1]))
            v = o.fields.get(a[1])
            if f["msg"]:
                return ("c", bool(v is not None and self.is_proto(v) and self.meta[v[1].id]["touched"]))
            return ("c", v is not None)
        if name in ("MergeFrom", "CopyFrom"):
            src = it.force(args[0]) if args else None
            if src is None or not self.is_proto(src):
                raise _exc("TypeError", "%s(%s) wants a message object" % (name, "..." if src is None else src[0]))
            ts = self.type_of(src)
            if ts != t:
                raise _exc("TypeError", "%s: a %s cannot be merged into a %s" % (name, ts, t))
            if name == "CopyFrom":
                self.clear(o)
            self.merge(it, o, src[1])
            self.touch(o)
            return C_NONE
        if name == "SetInParent":
            self.touch(o)
            return C_NONE
        if name == "Clear":
            self.clear(o)
            return C_NONE
        if name == "ClearField":
            a = it.concrete(args[0]) if args else None
            if a is not None and a[0] == "c":
                o.fields.pop(a[1], None)
            return C_NONE
        if name in ("SerializeToString", "SerializePartialToString"):
            snap = self.copy(it, o)
            return ("ext", "protobytes:" + t, [snap])
        if name in ("ParseFromString", "MergeFromString"):
            if name == "ParseFromString":
                self.clear(o)
            self.parse(it, o, args[0] if args else C_NONE)
            return C_NONE
        if name == "IsInitialized":
            return ("c", True)
        if name == "ListFields" and not args:
            # (descriptor, value) for every field that is on the wire, in the order of the message's description
            present = set(self.present_fields(o))
            order = [f_ for f_ in (self.descs.get(t) or {}) if f_ in present] + sorted(present - set(self.descs.get(t) or {}))
            out = []
            for f_ in order:
                d_ = Obj(None)
                d_.fields["name"] = ("c", f_)
                d_.fields["full_name"] = ("c", "%s.%s" % (t, f_))
                def value_(itp, f_=f_):
                    # the field counts as read when its value is used, not when it is merely listed
                    m["reads"].add(f_)
                    self.accessed.add((t, f_))
                    return o.fields[f_]
                value_.on_use = True          # resolved as soon as it is stored, passed on or returned
                out.append(("list", [("obj", d_), ("lazy", value_)]))
            return ("list", out)
        self.unmodelled.append("message method %s" % name)
        return ("fn", name, [recv] + list(args))

    # ---- operations
    def clear(self, o):
        for k in [k for k in o.fields if not k.startswith("@")]:
            del o.fields[k]

    def merge(self, it, dst, src):
        for k, v in list(src.fields.items()):
            if k.startswith("@"):
                continue
            if self.is_proto(v):
                if not self.meta[v[1].id]["touched"]:
                    continue
                child = dst.fields.get(k)
                if child is None:
                    child = self.new(it, self.type_of(v), parent=(dst, k))
                    dst.fields[k] = child
                self.merge(it, child[1], v[1])
                self.meta[child[1].id]["touched"] = True
            elif v[0] == "list":
                cur = dst.fields.get(k)
                if cur is None:
                    cur = ("list", [])
                    dst.fields[k] = cur
                cur[1].extend(v[1])
            else:
                dst.fields[k] = v

    def copy(self, it, o, parent=None):
        c = self.new(it, self.meta[o.id]["type"], parent=parent)
        self.merge(it, c[1], o)
        self.meta[c[1].id]["touched"] = self.meta[o.id]["touched"]
        return c

    def parse(self, it, o, data):
        data = it.force(data)
        t = self.meta[o.id]["type"]
        if data[0] == "ext" and data[1] == "protobytes:" + t and data[2] and self.is_proto(data[2][0]):
            self.merge(it, o, data[2][0][1])
            self.touch(o)
            return
        if data[0] == "ext" and data[1].startswith("protobytes:"):
            self.unmodelled.append("bytes of a %s parsed as a %s" % (data[1][len("protobytes:"):], t))
        else:
            self.unmodelled.append("ParseFromString of bytes that were not serialised in this scenario")

    # ---- scenario construction
    def populate(self, it, tname, budget, path=None, parent=None):
        """a message of type tname with every described field set: scalars to distinct opaque values, repeated scalars to
        two opaque items, message-typed fields recursively while the budget lasts"""
        path = path or tname
        inst = self.new(it, tname, parent=parent)
        o = inst[1]
        for name, f in self.descs.get(tname, {}).items():
            if f["label"] == 3:
                if not f["msg"]:
                    o.fields[name] = ("list", [("ext", "p:%s.%s[%d]" % (path, name, i), []) for i in range(2)])
            elif f["msg"]:
                if budget > 0 and f["msg"] in self.descs:
                    o.fields[name] = self.populate(it, f["msg"], budget - 1, path + "." + name, parent=(o, name))
            else:
                o.fields[name] = ("ext", "p:%s.%s" % (path, name), [])
        self.meta[o.id]["touched"] = True
        return inst
