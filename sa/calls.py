"""Call resolution and call-binding checks over the repo's own classes.

resolve_call(...)  -> list of (ClassInfo|None, FunctionDef, bound) candidates for a call expression:
  self.m(..)            method via MRO of the enclosing class (+ overrides in subclasses when cha=True)
  super(X, self).m(..)  next in MRO after X
  Cls.m(..) / Cls(..)   class attribute call / constructor
  self.f.m(..)          via the field's class (fields typed by their __init__ assignment or by the
                        unanimous type of the constructor argument they are copied from)
  local.m(..)           via the class a local was constructed from in the same function
bind_problems(fn, call, bound) -> list of strings (missing/extra/duplicate/unknown keyword)
"""
import ast

from .repo import is_self_attr, func_is_static, func_is_classmethod, unparse


class Resolver:
    def __init__(self, repo):
        self.repo = repo
        self._field_types = {}
        self._ctor_sites = None

    # ------------------------------------------------------------ field types
    def ctor_sites(self):
        """class qname -> list of (module, enclosing function, Call)"""
        if self._ctor_sites is None:
            sites = {}
            for m in self.repo.modules.values():
                for fn_owner, fn in _functions(m):
                    for n in ast.walk(fn):
                        if isinstance(n, ast.Call):
                            c = self.repo.resolve_expr_class(m, n.func)
                            if c is not None:
                                sites.setdefault(c.qname, []).append((m, fn, n))
            self._ctor_sites = sites
        return self._ctor_sites

    def local_types(self, module, fn):
        """local name -> ClassInfo when every assignment to it is a constructor call of one repo class"""
        types = {}
        bad = set()
        for n in ast.walk(fn):
            if isinstance(n, ast.Assign):
                for t in n.targets:
                    if isinstance(t, ast.Name):
                        c = None
                        if isinstance(n.value, ast.Call):
                            c = self.repo.resolve_expr_class(module, n.value.func)
                        if c is None:
                            bad.add(t.id)
                        elif t.id in types and types[t.id] is not c:
                            bad.add(t.id)
                        else:
                            types[t.id] = c
        return {k: v for k, v in types.items() if k not in bad}

    def field_types(self, cls):
        if cls.qname in self._field_types:
            return self._field_types[cls.qname]
        out = {}
        self._field_types[cls.qname] = out
        for k in reversed(self.repo.mro(cls)):
            init = k.methods.get("__init__")
            if init is None:
                continue
            params = [a.arg for a in init.args.args][1:]
            for n in ast.walk(init):
                if isinstance(n, ast.Assign) and len(n.targets) == 1 and is_self_attr(n.targets[0]):
                    f = n.targets[0].attr
                    v = n.value
                    if isinstance(v, ast.Call):
                        c = self.repo.resolve_expr_class(k.module, v.func)
                        if c is not None:
                            out[f] = c
                    elif isinstance(v, ast.Name) and v.id in params:
                        idx = params.index(v.id)
                        ts = set()
                        unknown = False
                        for (m, fn, call) in self.ctor_sites().get(k.qname, []):
                            arg = None
                            if idx < len(call.args):
                                arg = call.args[idx]
                            for kw in call.keywords:
                                if kw.arg == v.id:
                                    arg = kw.value
                            if arg is None:
                                continue
                            c = None
                            if isinstance(arg, ast.Call):
                                c = self.repo.resolve_expr_class(m, arg.func)
                            elif isinstance(arg, ast.Name):
                                c = self.local_types(m, fn).get(arg.id)
                            if c is None:
                                unknown = True
                            else:
                                ts.add(c)
                        if len(ts) == 1 and not unknown:
                            out[f] = list(ts)[0]
        return out

    # ------------------------------------------------------------ resolution
    def resolve_call(self, module, cls, fn, call, cha=False):
        """-> list of (owner ClassInfo|None, FunctionDef, implicit_first) ; implicit_first = True
        when the first parameter (self/cls) is bound implicitly."""
        f = call.func
        repo = self.repo
        out = []
        if isinstance(f, ast.Attribute):
            v = f.value
            # self.m()
            if isinstance(v, ast.Name) and v.id == "self" and cls is not None:
                k, m = repo.find_method(cls, f.attr)
                if m is not None:
                    out.append((k, m, not func_is_static(m)))
                if cha:
                    for s in repo.all_subclasses(cls):
                        if f.attr in s.methods:
                            out.append((s, s.methods[f.attr], not func_is_static(s.methods[f.attr])))
                return out
            # super(X, self).m() / super().m()
            if isinstance(v, ast.Call) and isinstance(v.func, ast.Name) and v.func.id == "super" and cls is not None:
                after = cls
                if v.args:
                    a = repo.resolve_expr_class(module, v.args[0])
                    if a is not None:
                        after = a
                k, m = repo.find_method(cls, f.attr, after=after)
                if m is not None:
                    out.append((k, m, True))
                return out
            # self.field.m()
            if isinstance(v, ast.Attribute) and is_self_attr(v) and cls is not None:
                c = self.field_types(cls).get(v.attr)
                if c is not None:
                    k, m = repo.find_method(c, f.attr)
                    if m is not None:
                        out.append((k, m, not func_is_static(m)))
                return out
            # Cls.m() (unbound / static / classmethod)  or module.func()
            c = repo.resolve_expr_class(module, v)
            if c is not None:
                k, m = repo.find_method(c, f.attr)
                if m is not None:
                    implicit = func_is_classmethod(m)
                    out.append((k, m, implicit))
                return out
            mm = repo.resolve_expr_module(module, v)
            if mm is not None:
                r = repo.resolve_name(mm, f.attr)
                if r and r[0] == "func":
                    out.append((None, r[2], False))
                elif r and r[0] == "class":
                    k, m = repo.find_method(r[1], "__init__")
                    if m is not None:
                        out.append((k, m, True))
                return out
            # local.m()
            if isinstance(v, ast.Name) and fn is not None:
                c = self.local_types(module, fn).get(v.id)
                if c is not None:
                    k, m = repo.find_method(c, f.attr)
                    if m is not None:
                        out.append((k, m, not func_is_static(m)))
            return out
        if isinstance(f, ast.Name):
            r = repo.resolve_name(module, f.id)
            if r and r[0] == "func":
                out.append((None, r[2], False))
            elif r and r[0] == "class":
                k, m = repo.find_method(r[1], "__init__")
                if m is not None:
                    out.append((k, m, True))
        return out


def _functions(m):
    for c in m.classes.values():
        for f in c.methods.values():
            yield c, f
    for f in m.functions.values():
        yield None, f


def bind_problems(fn, call, implicit_first, extra_positional=0):
    """Check that `call` binds to `fn`'s signature.  `extra_positional`: number of additional
    positional arguments supplied by the caller machinery (e.g. callbacks called with 2 args)."""
    a = fn.args
    pos = [x.arg for x in a.posonlyargs + a.args]
    if implicit_first and pos:
        pos = pos[1:]
    n_defaults = len(a.defaults)
    required = pos[: len(pos) - n_defaults] if n_defaults else list(pos)
    kwonly = [x.arg for x in a.kwonlyargs]
    kwonly_required = [x.arg for x, d in zip(a.kwonlyargs, a.kw_defaults) if d is None]
    probs = []
    if call is None:
        npos, kws, star, dstar = extra_positional, [], False, False
    else:
        star = any(isinstance(x, ast.Starred) for x in call.args)
        dstar = any(k.arg is None for k in call.keywords)
        npos = len([x for x in call.args if not isinstance(x, ast.Starred)]) + extra_positional
        kws = [k.arg for k in call.keywords if k.arg is not None]
    if npos > len(pos) and not a.vararg:
        probs.append("%d positional argument(s) for %d parameter(s) (%s)" % (npos, len(pos), ", ".join(pos)))
    bound = set(pos[:npos])
    for k in kws:
        if k in bound:
            probs.append("parameter %r bound twice (positionally and by keyword)" % k)
        elif k not in pos and k not in kwonly and not a.kwarg:
            probs.append("unknown keyword %r" % k)
        bound.add(k)
    if not star and not dstar:
        for r in required:
            if r not in bound:
                probs.append("missing argument %r" % r)
        for r in kwonly_required:
            if r not in bound:
                probs.append("missing keyword-only argument %r" % r)
    return probs


def check_calls_in_function(resolver, module, cls, fn, on_result):
    """resolve every call in fn; on_result(call, candidates, problems)"""
    for n in ast.walk(fn):
        if isinstance(n, ast.Call):
            cands = resolver.resolve_call(module, cls, fn, n)
            for (k, m, implicit) in cands:
                on_result(n, (k, m), bind_problems(m, n, implicit))
