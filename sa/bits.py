"""Bit-level abstract values for expressions built from &, |, >>, <<, +, %, // with constants.

A value is a list of N entries, one per result bit: 0, 1, ('v', name, i) = bit i of input
`name`, or 'X' (unknown).  Enough to compose an integer writer with its reader and check
that the composition is the identity on the bits the format carries.
"""
import ast

from .consts import alts

N = 40


def const(c):
    if c < 0:
        return ["X"] * N
    return [(c >> i) & 1 for i in range(N)]


def var(name, width):
    return [("v", name, i) if i < width else 0 for i in range(N)]


def unknown():
    return ["X"] * N


def _and(a, b):
    out = []
    for x, y in zip(a, b):
        if x == 0 or y == 0:
            out.append(0)
        elif x == 1:
            out.append(y)
        elif y == 1:
            out.append(x)
        elif x == y:
            out.append(x)
        else:
            out.append("X")
    return out


def _or(a, b):
    out = []
    for x, y in zip(a, b):
        if x == 0:
            out.append(y)
        elif y == 0:
            out.append(x)
        elif x == 1 or y == 1:
            out.append(1)
        elif x == y:
            out.append(x)
        else:
            out.append(("or", x, y))
    return out


def _shl(a, k):
    if k < 0:
        return unknown()
    return ([0] * k + a)[:N]


def _shr(a, k):
    if k < 0:
        return unknown()
    return (a[k:] + [0] * k)[:N]


def _add(a, b):
    # exact when no bit position is occupied in both operands (then + is |)
    for x, y in zip(a, b):
        if x != 0 and y != 0:
            return unknown()
    return _or(a, b)


def is_const(a):
    return all(x in (0, 1) for x in a)


def to_int(a):
    return sum((1 << i) for i, x in enumerate(a) if x == 1)


def ev(e, env, cev=None):
    """env: name -> bitvec.  cev: consts.Evaluator for named constants."""
    if isinstance(e, ast.Constant) and isinstance(e.value, int) and not isinstance(e.value, bool):
        return const(e.value)
    if isinstance(e, ast.Name) and e.id in env:
        return env[e.id]
    if cev is not None and not isinstance(e, ast.BinOp):
        a = alts(cev.ev(e))
        if a is not None and len(a) == 1 and isinstance(a[0], int) and not isinstance(a[0], bool):
            return const(a[0])
    if isinstance(e, ast.BinOp):
        l, r = ev(e.left, env, cev), ev(e.right, env, cev)
        op = e.op
        if isinstance(op, ast.BitAnd):
            return _and(l, r)
        if isinstance(op, ast.BitOr):
            return _or(l, r)
        if isinstance(op, ast.Add):
            return _add(l, r)
        if isinstance(op, (ast.LShift, ast.RShift)) and is_const(r):
            k = to_int(r)
            if k > N:
                return const(0) if isinstance(op, ast.RShift) else unknown()
            return _shl(l, k) if isinstance(op, ast.LShift) else _shr(l, k)
        if isinstance(op, (ast.Mod, ast.FloorDiv, ast.Mult)) and is_const(r):
            k = to_int(r)
            if k > 0 and (k & (k - 1)) == 0:
                sh = k.bit_length() - 1
                if isinstance(op, ast.Mod):
                    return _and(l, const(k - 1))
                if isinstance(op, ast.FloorDiv):
                    return _shr(l, sh)
                return _shl(l, sh)
        return unknown()
    return unknown()


def subst(a, mapping):
    """replace ('v', name, i) by mapping[name][i]"""
    out = []
    for x in a:
        if isinstance(x, tuple) and x[0] == "v" and x[1] in mapping:
            out.append(mapping[x[1]][x[2]])
        elif isinstance(x, tuple) and x[0] == "or":
            l = subst([x[1]], mapping)[0]
            r = subst([x[2]], mapping)[0]
            out.append(_or([l], [r])[0])
        else:
            out.append(x)
    return out


def describe(a, upto=None):
    """compact text: runs of consecutive input bits"""
    parts = []
    i = 0
    n = upto or N
    while i < n:
        x = a[i]
        if isinstance(x, tuple) and x[0] == "v":
            j = i
            while j + 1 < n and isinstance(a[j + 1], tuple) and a[j + 1][0] == "v" and a[j + 1][1] == x[1] and a[j + 1][2] == a[j][2] + 1:
                j += 1
            parts.append("out[%d..%d]=%s[%d..%d]" % (i, j, x[1], x[2], a[j][2]))
            i = j + 1
        else:
            if x != 0:
                parts.append("out[%d]=%s" % (i, "?" if x == "X" else str(x)))
            i += 1
    return ", ".join(parts) or "0"
