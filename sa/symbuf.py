"""Symbolic byte buffers and linear integers for the abstract interpreter (opt-in: `Interp.sym = SymExt()`).

Values
  ('lin', coeffs)          an integer  sum(coef * symbol) + const ; coeffs = sorted tuple of (symbol | 1, int)
  ('bufobj', Buf)          a (mutable) byte buffer: a window [start, end) - both linear - on an abstract byte sequence `sid`
  ('byte', sid, index)     one byte of such a sequence at a linear index
Comparisons of linear integers the interpreter cannot decide become free atoms whose text is the canonical inequality;
the decisions taken along a path are recorded in `SymExt.conds` as (coeffs, op, truth), so that a rule can evaluate which
path is taken for a concrete assignment of the symbols.
`decode` hooks (struct.unpack / int.from_bytes / shift-or of bytes) return a fresh size symbol and record what was read.
"""
import ast
import struct


def lin(const=0, **syms):
    d = {k: v for k, v in syms.items() if v}
    if const:
        d[1] = const
    return ("lin", tuple(sorted(d.items(), key=lambda kv: str(kv[0]))))


def to_lin(v):
    """('c', int) / ('lin', ..) -> dict {sym: coef}, or None"""
    if v[0] == "lin":
        return dict(v[1])
    if v[0] == "c" and isinstance(v[1], int) and not isinstance(v[1], bool):
        return {1: v[1]} if v[1] else {}
    return None


def from_dict(d):
    d = {k: c for k, c in d.items() if c}
    if set(d) <= {1}:
        return ("c", d.get(1, 0))
    return ("lin", tuple(sorted(d.items(), key=lambda kv: str(kv[0]))))


def add(a, b, sign=1):
    out = dict(a)
    for k, c in b.items():
        out[k] = out.get(k, 0) + sign * c
    return {k: c for k, c in out.items() if c}


def scale(a, k):
    return {s: c * k for s, c in a.items()}


def value_of(d, assign):
    return sum(c * (1 if s == 1 else assign[s]) for s, c in d.items())


def show_lin(d):
    if isinstance(d, tuple):
        d = dict(d[1]) if d and d[0] == "lin" else dict(d)
    parts = []
    for s, c in sorted(d.items(), key=lambda kv: str(kv[0])):
        if s == 1:
            parts.append(str(c))
        else:
            parts.append(("%s" % s) if c == 1 else ("-%s" % s if c == -1 else "%d*%s" % (c, s)))
    return " + ".join(parts).replace("+ -", "- ") or "0"


class Buf:
    def __init__(self, sid, start, end):
        self.sid, self.start, self.end = sid, dict(start), dict(end)

    def copy(self):
        return Buf(self.sid, self.start, self.end)

    def length(self):
        return add(self.end, self.start, -1)

    def __repr__(self):
        return "<buf %s[%s:%s]>" % (self.sid, show_lin(self.start), show_lin(self.end))


class SymExt:
    def __init__(self):
        self.conds = []          # (coeff dict, op in {'>=0','==0'}, truth)
        self.decodes = []        # {"view": Buf, "kind": ..., "ok": bool, "why": str, "sym": name}
        self.notes = []          # things the model could not follow (make the result undecided)
        self.loops = []          # per executed while loop: {"entered": bool, "exit": 'break'|'fallthrough'|'continue'|'raise'|'not entered'}
        self.nsym = 0
        self.havoc = {}          # name -> symbol given to a loop-carried local at the loop head
        self.slices = []         # (window, lower bound, upper bound) of every slice taken (bounds must lie inside the window)
        self._decoded = {}       # repr(byte term) -> size value (one symbol per distinct decode expression)

    # ------------------------------------------------------------------ helpers used by Interp
    def is_sym(self, v):
        return isinstance(v, tuple) and v and v[0] in ("lin", "bufobj", "byte")

    def fresh(self, prefix):
        self.nsym += 1
        return "%s%d" % (prefix, self.nsym)

    def byteish(self, v):
        return v[0] == "byte" or (v[0] == "fn" and v[1] == "byteop")

    def as_int(self, v):
        """a fully assembled big-endian byte combination used as a number: its size symbol"""
        if not self.byteish(v):
            return v
        key = repr(v)
        if key not in self._decoded:
            r = self.decode_byteop(v)
            self._decoded[key] = r if r is not None else v
        return self._decoded[key]

    def binop(self, it, op, l, r):
        """-> value or None (not ours)"""
        if isinstance(op, (ast.Add, ast.Sub)) and (self.byteish(l) != self.byteish(r)) and to_lin(r if self.byteish(l) else l) is not None:
            l, r = self.as_int(l), self.as_int(r)
        la, ra = to_lin(l), to_lin(r)
        if l[0] == "lin" or r[0] == "lin":
            if la is not None and ra is not None:
                if isinstance(op, ast.Add):
                    return from_dict(add(la, ra))
                if isinstance(op, ast.Sub):
                    return from_dict(add(la, ra, -1))
                if isinstance(op, ast.Mult) and (set(la) <= {1} or set(ra) <= {1}):
                    k, o = (la.get(1, 0), ra) if set(la) <= {1} else (ra.get(1, 0), la)
                    return from_dict(scale(o, k))
            self.notes.append("arithmetic on a symbolic integer the model does not follow: %s" % type(op).__name__)
            return ("fn", type(op).__name__, [l, r])
        # bytes + view / view + view: kept as a term for the decoders
        if isinstance(op, ast.Add) and (l[0] == "bufobj" or r[0] == "bufobj"):
            return ("fn", "concat", [l, r])
        if l[0] == "byte" or r[0] == "byte" or (l[0] == "fn" and l[1] in ("byteop",)) or (r[0] == "fn" and r[1] in ("byteop",)):
            return ("fn", "byteop", [("c", type(op).__name__), l, r])
        return None

    def compare(self, it, op, l, r, text):
        """ordering / equality of linear integers -> bool, or None (not ours)"""
        if self.byteish(l) or self.byteish(r):
            l, r = self.as_int(l), self.as_int(r)
        la, ra = to_lin(l), to_lin(r)
        if la is None or ra is None or (l[0] != "lin" and r[0] != "lin"):
            return None
        d = add(la, ra, -1)            # l - r
        if isinstance(op, (ast.Gt,)):
            e, kind, neg = add(d, {1: -1}), ">=0", False          # l - r - 1 >= 0
        elif isinstance(op, ast.GtE):
            e, kind, neg = d, ">=0", False
        elif isinstance(op, ast.Lt):
            e, kind, neg = add(scale(d, -1), {1: -1}), ">=0", False   # r - l - 1 >= 0
        elif isinstance(op, ast.LtE):
            e, kind, neg = scale(d, -1), ">=0", False
        elif isinstance(op, (ast.Eq, ast.Is)):
            e, kind, neg = d, "==0", False
        elif isinstance(op, (ast.NotEq, ast.IsNot)):
            e, kind, neg = d, "==0", True
        else:
            return None
        e = {k: c for k, c in e.items() if c}
        if set(e) <= {1}:
            c = e.get(1, 0)
            t = (c >= 0) if kind == ">=0" else (c == 0)
            return (not t) if neg else t
        # implied by / contradicting an earlier decision on the same expression: reuse it
        key = tuple(sorted(e.items(), key=lambda kv: str(kv[0])))
        for (e0, k0, t0) in self.conds:
            if k0 == kind and tuple(sorted(e0.items(), key=lambda kv: str(kv[0]))) == key:
                return (not t0) if neg else t0
        t = it.free("lin(%s %s)" % (show_lin(e), kind))
        self.conds.append((e, kind, t))
        return (not t) if neg else t

    def truth(self, it, v):
        if v[0] == "lin":
            return self.compare(it, ast.NotEq(), v, ("c", 0), "truth")
        if v[0] == "bufobj":
            ln = from_dict(v[1].length())
            if ln[0] == "c":
                return ln[1] > 0
            return self.compare(it, ast.Gt(), ln, ("c", 0), "nonempty")
        return None

    def length(self, v):
        if v[0] == "bufobj":
            return from_dict(v[1].length())
        return None

    def subscript(self, it, b, e, env, depth):
        """b is ('bufobj', Buf); e an ast.Subscript.  -> value"""
        buf = b[1]
        if isinstance(e.slice, ast.Slice):
            if e.slice.step is not None:
                self.notes.append("stepped slice of the buffer")
                return ("fn", "slice", [b])
            lo = it.expr(e.slice.lower, env, depth) if e.slice.lower is not None else ("c", 0)
            hi = it.expr(e.slice.upper, env, depth) if e.slice.upper is not None else None
            lo_l = to_lin(lo)
            hi_l = to_lin(hi) if hi is not None else None
            if lo_l is None or (hi is not None and hi_l is None):
                self.notes.append("buffer sliced with a bound the model does not follow")
                return ("fn", "slice", [b])
            if (lo[0] == "c" and lo[1] < 0) or (hi is not None and hi[0] == "c" and hi[1] < 0):
                # from-the-end bounds: relative to the end of the window
                ns = add(buf.end, lo_l) if (lo[0] == "c" and lo[1] < 0) else add(buf.start, lo_l)
                ne = (add(buf.end, hi_l) if (hi[0] == "c" and hi[1] < 0) else add(buf.start, hi_l)) if hi is not None else dict(buf.end)
                return ("bufobj", Buf(buf.sid, ns, ne))
            ns = add(buf.start, lo_l)
            ne = add(buf.start, hi_l) if hi is not None else dict(buf.end)
            self.slices.append((buf.copy(), lo_l, hi_l))
            return ("bufobj", Buf(buf.sid, ns, ne))
        idx = it.expr(e.slice, env, depth)
        il = to_lin(idx)
        if il is None:
            self.notes.append("buffer indexed with a value the model does not follow")
            return ("fn", "item", [b])
        return ("byte", buf.sid, tuple(sorted(add(buf.start, il).items(), key=lambda kv: str(kv[0]))))

    def delete(self, it, b, sl, env, depth):
        buf = b[1]
        if isinstance(sl, ast.Slice) and sl.step is None and (sl.lower is None or to_lin(it.expr(sl.lower, env, depth)) == {}):
            hi = it.expr(sl.upper, env, depth) if sl.upper is not None else None
            if hi is None:
                buf.start = dict(buf.end)
                return True
            hl = to_lin(hi)
            if hl is not None:
                buf.start = add(buf.start, hl)
                return True
        self.notes.append("deletion from the buffer the model does not follow")
        return False

    def method(self, it, recv, name, args, kwargs):
        buf = recv[1]
        if name == "extend" and args:
            a = args[0]
            if a[0] == "bufobj" and a[1].sid == buf.sid and a[1].start == buf.end:
                buf.end = dict(a[1].end)
                return ("c", None)
            if a[0] == "bufobj":
                # a different sequence appended: the chunk continues this buffer's sequence
                buf.end = add(buf.end, a[1].length())
                return ("c", None)
            self.notes.append("buffer extended with a value the model does not follow")
            return ("c", None)
        if name in ("copy",):
            return ("bufobj", buf.copy())
        if name == "clear":
            buf.start = dict(buf.end)
            return ("c", None)
        self.notes.append("buffer method %s is not modelled" % name)
        return ("fn", name, [recv] + list(args))

    # ------------------------------------------------------------------ decoders
    def new_size(self, view, kind, ok, why):
        name = self.fresh("S")
        self.decodes.append({"view": view.copy() if view is not None else None, "kind": kind, "ok": ok, "why": why, "sym": name, "fn": getattr(self, "current_fn", None)})
        return ("lin", ((name, 1),))

    def decode_unpack(self, fmt, arg):
        """struct.unpack(fmt, arg) -> ('list', [size symbol])  for arg = [zero pad +] view"""
        pad, view = b"", None
        if arg[0] == "bufobj":
            view = arg[1]
        elif arg[0] == "fn" and arg[1] == "concat" and len(arg[2]) == 2 and arg[2][0][0] == "c" and isinstance(arg[2][0][1], (bytes, bytearray)) and arg[2][1][0] == "bufobj":
            pad, view = bytes(arg[2][0][1]), arg[2][1][1]
        if view is None or not isinstance(fmt, str):
            self.notes.append("struct.unpack of something that is not (zero pad +) a slice of the buffer")
            return None
        ln = view.length()
        n = ln.get(1, 0) if set(ln) <= {1} else None
        if isinstance(fmt, str) and len(fmt) > 2 and fmt[0] in ">!" and all(ch in "BHIL" for ch in fmt[1:]) and not pad and n is not None:
            # several big-endian unsigned fields: each is the big-endian combination of its bytes (recombined by the caller)
            widths = {"B": 1, "H": 2, "I": 4, "L": 4}
            if sum(widths[ch] for ch in fmt[1:]) == n:
                out, off = [], 0
                for ch in fmt[1:]:
                    term = None
                    for i in range(widths[ch]):
                        b = ("byte", view.sid, tuple(sorted(add(view.start, {1: off + i}).items(), key=lambda kv: str(kv[0]))))
                        sh = 8 * (widths[ch] - 1 - i)
                        piece = b if sh == 0 else ("fn", "byteop", [("c", "LShift"), b, ("c", sh)])
                        term = piece if term is None else ("fn", "byteop", [("c", "BitOr"), term, piece])
                    out.append(term)
                    off += widths[ch]
                return ("list", out)
        ok, why = True, ""
        try:
            size = struct.calcsize(fmt)
        except struct.error:
            size = None
        if n is None:
            ok, why = False, "the header slice has no constant length"
        elif size is None or len(fmt) != 2 or fmt[0] not in ">!" or fmt[1] not in "BHILQ":
            ok, why = False, "format %r is not one big-endian unsigned integer" % fmt
        elif any(pad) or size != len(pad) + n:
            ok, why = False, "format %r needs %s bytes but gets %d pad + %d header bytes (pad %r)" % (fmt, size, len(pad), n, pad)
        return ("list", [self.new_size(view, "unpack " + fmt, ok, why)])

    def decode_from_bytes(self, view_v, order, signed):
        if view_v[0] != "bufobj":
            self.notes.append("int.from_bytes of something that is not a slice of the buffer")
            return None
        ln = view_v[1].length()
        const = set(ln) <= {1}
        ok = const and order == "big" and not signed
        return self.new_size(view_v[1], "from_bytes", ok, "" if ok else "int.from_bytes(%s, signed=%s) over a slice of %s bytes" % (order, signed, show_lin(ln)))

    def decode_byteop(self, term):
        """(b[p] << 16) | (b[p+1] << 8) | b[p+2]  (also with + instead of |) -> size symbol over the view [p, p+H)"""
        parts = []   # (sid, index dict, shift)

        def walk(t, shift):
            if t[0] == "byte":
                parts.append((t[1], dict(t[2]), shift))
                return True
            if t[0] == "fn" and t[1] == "byteop":
                opn, l, r = t[2][0][1], t[2][1], t[2][2]
                if opn in ("BitOr", "Add"):
                    return walk(l, shift) and walk(r, shift)
                if opn == "LShift" and r[0] == "c" and isinstance(r[1], int):
                    return walk(l, shift + r[1])
                if opn == "Mult" and r[0] == "c" and isinstance(r[1], int) and r[1] > 0 and (r[1] & (r[1] - 1)) == 0:
                    return walk(l, shift + r[1].bit_length() - 1)
                if opn == "BitAnd" and r[0] == "c" and r[1] == 0xFF:
                    return walk(l, shift)
            return False
        if not walk(term, 0) or not parts:
            return None
        parts.sort(key=lambda p: -p[2])
        H = len(parts)
        sid = parts[0][0]
        base = parts[0][1]
        ok = all(p[0] == sid for p in parts) and all(parts[i][2] == 8 * (H - 1 - i) for i in range(H)) \
            and all(add(parts[i][1], base, -1) == ({1: i} if i else {}) for i in range(H))
        view = Buf(sid, base, add(base, {1: H}))
        return self.new_size(view, "shift/or of %d bytes" % H, ok, "" if ok else "bytes are not combined big-endian from consecutive positions")
