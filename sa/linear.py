"""Linear-expression normalisation: expr -> {symbol: coeff, 1: const} (or None).

Symbols are local names and `len(<expr>)` terms (keyed by their unparsed text).  Constants
are resolved through the constant evaluator so that `3`, `H`, `self.HEADER_LEN` agree.
"""
import ast

from .consts import K, alts
from .repo import unparse


def lin(e, ev=None):
    if isinstance(e, ast.Constant) and isinstance(e.value, int) and not isinstance(e.value, bool):
        return {1: e.value}
    if ev is not None:
        v = ev.ev(e)
        a = alts(v)
        if a is not None and len(a) == 1 and isinstance(a[0], int) and not isinstance(a[0], bool):
            return {1: a[0]}
    if isinstance(e, ast.Name):
        return {e.id: 1}
    if isinstance(e, ast.Call) and isinstance(e.func, ast.Name) and e.func.id == "len" and len(e.args) == 1:
        return {"len(%s)" % unparse(e.args[0]): 1}
    if isinstance(e, ast.Attribute):
        return {unparse(e): 1}
    if isinstance(e, ast.BinOp):
        a, b = lin(e.left, ev), lin(e.right, ev)
        if a is None or b is None:
            return None
        if isinstance(e.op, ast.Add):
            return _add(a, b, 1)
        if isinstance(e.op, ast.Sub):
            return _add(a, b, -1)
        if isinstance(e.op, ast.Mult):
            if set(a) <= {1}:
                return _scale(b, a.get(1, 0))
            if set(b) <= {1}:
                return _scale(a, b.get(1, 0))
        return None
    if isinstance(e, ast.UnaryOp) and isinstance(e.op, ast.USub):
        a = lin(e.operand, ev)
        return _scale(a, -1) if a is not None else None
    return None


def _add(a, b, s):
    out = dict(a)
    for k, v in b.items():
        out[k] = out.get(k, 0) + s * v
    return {k: v for k, v in out.items() if v != 0 or k == 1}


def _scale(a, c):
    return {k: v * c for k, v in a.items() if v * c != 0 or k == 1}


def norm(a):
    if a is None:
        return None
    d = {k: v for k, v in a.items() if v != 0}
    return tuple(sorted(d.items(), key=lambda kv: str(kv[0])))


def equal(a, b):
    return a is not None and b is not None and norm(a) == norm(b)


def const_of(a):
    """const if a is purely constant else None"""
    if a is None:
        return None
    if all(k == 1 or v == 0 for k, v in a.items()):
        return a.get(1, 0)
    return None


def cmp_normal(test, ev=None):
    """Normalise a comparison `L op R` to (lin(L - R), op) with op in > >= == != ; None if not linear."""
    if not (isinstance(test, ast.Compare) and len(test.ops) == 1):
        return None
    l, r = lin(test.left, ev), lin(test.comparators[0], ev)
    if l is None or r is None:
        return None
    op = type(test.ops[0])
    if op is ast.Gt:
        return _add(l, r, -1), ">"
    if op is ast.GtE:
        return _add(l, r, -1), ">="
    if op is ast.Lt:
        return _add(r, l, -1), ">"
    if op is ast.LtE:
        return _add(r, l, -1), ">="
    if op is ast.Eq:
        return _add(l, r, -1), "=="
    if op is ast.NotEq:
        return _add(l, r, -1), "!="
    return None
