"""Per-instance state: an attribute that methods mutate in place through `self` must be bound on the instance by a
constructor; if it only exists as a class-level mutable it is shared by every instance of the class (every stack, every
connection built in the process)."""
import ast

from .report import where

MUTATORS = {"append", "extend", "update", "add", "insert", "setdefault", "pop", "popleft", "clear", "remove", "put", "put_nowait", "get", "get_nowait"}
PURE_READS = {"get"}      # dict.get does not mutate; kept out unless the receiver is a queue (decided by the binding)


def mutated_through_self(repo, cls):
    """{attr: [(method name, how)]} for in-place mutations `self.attr.m(...)`, `self.attr[k] = v`, `del self.attr[k]`"""
    out = {}
    for k in repo.mro(cls):
        for f in k.methods.values():
            for n in ast.walk(f):
                if isinstance(n, ast.Call) and isinstance(n.func, ast.Attribute) and n.func.attr in MUTATORS and n.func.attr not in PURE_READS \
                        and isinstance(n.func.value, ast.Attribute) and isinstance(n.func.value.value, ast.Name) and n.func.value.value.id == "self":
                    out.setdefault(repo.mangle(k.name, n.func.value.attr), []).append((k.name + "." + f.name, n.func.attr))
                if isinstance(n, (ast.Assign, ast.AugAssign, ast.Delete)):
                    tg = [n.target] if isinstance(n, ast.AugAssign) else n.targets
                    for t in tg:
                        if isinstance(t, ast.Subscript) and isinstance(t.value, ast.Attribute) and isinstance(t.value.value, ast.Name) and t.value.value.id == "self":
                            out.setdefault(repo.mangle(k.name, t.value.attr), []).append((k.name + "." + f.name, "[]"))
    return out


def bound_in_init(repo, cls):
    """attributes some __init__ along the MRO stores on self (mangled) -> the value expression (last binding wins)"""
    out = {}
    for k in repo.mro(cls):
        init = k.methods.get("__init__")
        if init is None:
            continue
        for n in ast.walk(init):
            tg = n.targets if isinstance(n, ast.Assign) else ([n.target] if isinstance(n, (ast.AugAssign, ast.AnnAssign)) else [])
            for t in tg:
                for x in ast.walk(t):
                    if isinstance(x, ast.Attribute) and isinstance(x.value, ast.Name) and x.value.id == "self" and isinstance(x.ctx, ast.Store):
                        out.setdefault(repo.mangle(k.name, x.attr), (k, getattr(n, "value", None)))
    return out


def reads_class_level_mutable(repo, cls, k, e):
    """name of a class-level mutable (of cls's hierarchy) that expression e reads (Cls.X, self.__class__.X, type(self).X,
    self.X where X is never bound on the instance) - a value obtained from it is shared between instances"""
    if e is None:
        return None
    shared = class_level_mutables(repo, cls)
    for x in ast.walk(e):
        if isinstance(x, ast.Attribute):
            nm = repo.mangle(k.name, x.attr)
            if nm in shared:
                root = x.value
                via_class = (isinstance(root, ast.Name) and root.id != "self") or (isinstance(root, ast.Attribute) and root.attr == "__class__") or \
                    (isinstance(root, ast.Call) and isinstance(root.func, ast.Name) and root.func.id == "type")
                if via_class or (isinstance(root, ast.Name) and root.id == "self"):
                    return nm
    return None


def class_level_mutables(repo, cls):
    out = {}
    for k in repo.mro(cls):
        for name, e in k.consts.items():
            if isinstance(e, (ast.Dict, ast.List, ast.Set)) or (isinstance(e, ast.Call) and isinstance(e.func, ast.Name) and e.func.id in ("dict", "list", "set", "bytearray", "deque")):
                out.setdefault(repo.mangle(k.name, name), k)
    return out


def per_instance_state(ctx, rule, cls, reviewed_shared=()):
    """one instance per attribute of cls that is mutated in place through self"""
    repo = ctx.repo
    muts = mutated_through_self(repo, cls)
    inits = bound_in_init(repo, cls)
    shared = class_level_mutables(repo, cls)
    n = 0
    for attr, sites in sorted(muts.items()):
        if attr in reviewed_shared:
            continue
        w = where(cls.relpath, cls.name, None)
        label = "self.%s mutated in place by %s" % (attr, ", ".join(sorted({s[0] for s in sites}))[:80])
        if attr in inits:
            k, val = inits[attr]
            src = reads_class_level_mutable(repo, cls, k, val)
            if src is not None and src != attr:
                ctx.violate(rule, where(k.relpath, k.name + ".__init__", getattr(val, "lineno", None)), label,
                            "the constructor binds `%s` to a value taken from the class-level mutable `%s` (%s): instances of one class share it - what one instance registers or stores is seen, and used, by the others" % (attr, src, ast.unparse(val)[:70]))
            else:
                ctx.hold(rule, w, label, "bound per instance by a constructor")
            n += 1
        elif attr in shared:
            k = shared[attr]
            ctx.violate(rule, where(k.relpath, k.name, None), label,
                        "`%s` exists only as a class-level mutable of %s and is mutated in place through self: every instance of the class (every stack, every connection of the process) shares it and sees the others' content" % (attr, k.name))
            n += 1
    return n
