"""Per-instance state: an attribute that methods mutate in place through `self` must be bound on the instance by a
constructor; if it only exists as a class-level mutable it is shared by every instance of the class (every stack, every
connection built in the process)."""
import ast

from .report import where

MUTATORS = {"append", "extend", "update", "add", "insert", "setdefault", "pop", "popleft", "clear", "remove", "put", "put_nowait", "get", "get_nowait"}
PURE_READS = {"get"}      # dict.get does not mutate; kept out unless the receiver is a queue (decided by the binding)


def mutated_through_self(repo, cls):
    """{attr: [(method name, how)]} for in-place mutations `self.attr.m(...)`, `self.attr[k] = v`, `del self.attr[k]`"""
    out = {}
    for k in repo.mro(cls):
        for f in k.methods.values():
            for n in ast.walk(f):
                if isinstance(n, ast.Call) and isinstance(n.func, ast.Attribute) and n.func.attr in MUTATORS and n.func.attr not in PURE_READS \
                        and isinstance(n.func.value, ast.Attribute) and isinstance(n.func.value.value, ast.Name) and n.func.value.value.id == "self":
                    out.setdefault(repo.mangle(k.name, n.func.value.attr), []).append((k.name + "." + f.name, n.func.attr))
                if isinstance(n, (ast.Assign, ast.AugAssign, ast.Delete)):
                    tg = [n.target] if isinstance(n, ast.AugAssign) else n.targets
                    for t in tg:
                        if isinstance(t, ast.Subscript) and isinstance(t.value, ast.Attribute) and isinstance(t.value.value, ast.Name) and t.value.value.id == "self":
                            out.setdefault(repo.mangle(k.name, t.value.attr), []).append((k.name + "." + f.name, "[]"))
    return out


def bound_in_init(repo, cls):
    """attributes some __init__ along the MRO stores on self (mangled) -> the value expression (last binding wins)"""
    out = {}
    for k in repo.mro(cls):
        init = k.methods.get("__init__")
        if init is None:
            continue
        for n in ast.walk(init):
            tg = n.targets if isinstance(n, ast.Assign) else ([n.target] if isinstance(n, (ast.AugAssign, ast.AnnAssign)) else [])
            for t in tg:
                for x in ast.walk(t):
                    if isinstance(x, ast.Attribute) and isinstance(x.value, ast.Name) and x.value.id == "self" and isinstance(x.ctx, ast.Store):
                        out.setdefault(repo.mangle(k.name, x.attr), (k, getattr(n, "value", None)))
    return out


def reads_class_level_mutable(repo, cls, k, e):
    """name of a class-level mutable (of cls's hierarchy) that expression e reads (Cls.X, self.__class__.X, type(self).X,
    self.X where X is never bound on the instance) - a value obtained from it is shared between instances"""
    if e is None:
        return None
    shared = class_level_mutables(repo, cls)
    for x in ast.walk(e):
        if isinstance(x, ast.Attribute):
            nm = repo.mangle(k.name, x.attr)
            if nm in shared:
                root = x.value
                via_class = (isinstance(root, ast.Name) and root.id != "self") or (isinstance(root, ast.Attribute) and root.attr == "__class__") or \
                    (isinstance(root, ast.Call) and isinstance(root.func, ast.Name) and root.func.id == "type")
                if via_class or (isinstance(root, ast.Name) and root.id == "self"):
                    return nm
    return None


def class_level_mutables(repo, cls):
    out = {}
    for k in repo.mro(cls):
        for name, e in k.consts.items():
            if isinstance(e, (ast.Dict, ast.List, ast.Set)) or (isinstance(e, ast.Call) and isinstance(e.func, ast.Name) and e.func.id in ("dict", "list", "set", "bytearray", "deque")):
                out.setdefault(repo.mangle(k.name, name), k)
    return out


def class_level_written(repo, cls):
    """class-level mutables of cls's hierarchy that some method writes into (through the class, type(self) or self)"""
    shared = class_level_mutables(repo, cls)
    out = set()
    for k in repo.mro(cls):
        for f in k.methods.values():
            for n in ast.walk(f):
                tgt = []
                if isinstance(n, (ast.Assign, ast.AugAssign, ast.Delete)):
                    tgt = [t.value for t in ([n.target] if isinstance(n, ast.AugAssign) else n.targets) if isinstance(t, ast.Subscript)]
                elif isinstance(n, ast.Call) and isinstance(n.func, ast.Attribute) and n.func.attr in MUTATORS and n.func.attr not in PURE_READS:
                    tgt = [n.func.value]
                for t in tgt:
                    if isinstance(t, ast.Attribute):
                        nm = repo.mangle(k.name, t.attr)
                        if nm in shared:
                            out.add(nm)
    return out


def per_instance_state(ctx, rule, cls, reviewed_shared=()):
    """one instance per attribute of cls that is mutated in place through self"""
    repo = ctx.repo
    muts = mutated_through_self(repo, cls)
    inits = bound_in_init(repo, cls)
    shared = class_level_mutables(repo, cls)
    n = 0
    for attr, sites in sorted(muts.items()):
        if attr in reviewed_shared:
            continue
        w = where(cls.relpath, cls.name, None)
        label = "self.%s mutated in place by %s" % (attr, ", ".join(sorted({s[0] for s in sites}))[:80])
        if attr in inits:
            k, val = inits[attr]
            src = reads_class_level_mutable(repo, cls, k, val)
            if src is not None and src != attr:
                ctx.violate(rule, where(k.relpath, k.name + ".__init__", getattr(val, "lineno", None)), label,
                            "the constructor binds `%s` to a value taken from the class-level mutable `%s` (%s): instances of one class share it - what one instance registers or stores is seen, and used, by the others" % (attr, src, ast.unparse(val)[:70]))
            else:
                ctx.hold(rule, w, label, "bound per instance by a constructor")
            n += 1
        elif attr in shared:
            k = shared[attr]
            ctx.violate(rule, where(k.relpath, k.name, None), label,
                        "`%s` exists only as a class-level mutable of %s and is mutated in place through self: every instance of the class (every stack, every connection of the process) shares it and sees the others' content" % (attr, k.name))
            n += 1
    # instance attributes a constructor takes out of a class-level container that the class itself writes into (a
    # per-class cache): the cached value was computed for - and usually refers to - the first instance
    written = class_level_written(repo, cls)
    for attr, (k, val) in sorted(inits.items()):
        if attr in muts or attr in reviewed_shared:
            continue
        src = reads_class_level_mutable(repo, cls, k, val)
        if src is not None and src in written and src != attr:
            ctx.violate(rule, where(k.relpath, k.name + ".__init__", getattr(val, "lineno", None)), "self.%s = %s" % (attr, ast.unparse(val)[:60]),
                        "the constructor takes `%s` out of the class-level container `%s`, which the class fills itself (a per-class cache): every instance after the first gets the value computed for the first one (bound methods, buffers and state of another instance)" % (attr, src))
            n += 1
    return n


# ------------------------------------------------------------------ mutable default arguments
IMMUTABLE_CALLS = {"tuple", "frozenset", "str", "bytes", "int", "float", "bool", "object"}
PARAM_MUTATORS = MUTATORS | {"MergeFrom", "MergeFromString", "ParseFromString", "CopyFrom", "Clear", "sort", "reverse"}


def _shared_default(d):
    """a default value that is one object shared by every call: a mutable literal or the result of a call"""
    if isinstance(d, (ast.Dict, ast.List, ast.Set)):
        return True
    if isinstance(d, ast.Call):
        f = d.func
        name = f.id if isinstance(f, ast.Name) else (f.attr if isinstance(f, ast.Attribute) else None)
        return name not in IMMUTABLE_CALLS
    return False


def _root_name(e):
    while isinstance(e, (ast.Attribute, ast.Subscript)):
        e = e.value
    return e.id if isinstance(e, ast.Name) else None


def default_findings(repo, cls, fn, relpath):
    """[(param, how)] for parameters of fn whose shared default object is mutated or kept"""
    a = fn.args
    pos = a.posonlyargs + a.args
    pairs = list(zip(pos[len(pos) - len(a.defaults):], a.defaults)) + [(p, d) for p, d in zip(a.kwonlyargs, a.kw_defaults) if d is not None]
    out, n = [], 0
    for p, d in pairs:
        n += 1
        if not _shared_default(d):
            continue
        aliases = {p.arg}
        for st in ast.walk(fn):
            if isinstance(st, ast.Assign) and isinstance(st.value, ast.Name) and st.value.id in aliases:
                for t in st.targets:
                    if isinstance(t, ast.Name):
                        aliases.add(t.id)
        how = None
        for st in ast.walk(fn):
            if isinstance(st, (ast.Assign, ast.AugAssign)):
                for t in (st.targets if isinstance(st, ast.Assign) else [st.target]):
                    if isinstance(t, (ast.Attribute, ast.Subscript)) and _root_name(t) in aliases:
                        how = "written through (%s)" % ast.unparse(t)[:50]
                    if isinstance(t, ast.Attribute) and isinstance(t.value, ast.Name) and t.value.id == "self" and isinstance(st, ast.Assign) \
                            and isinstance(st.value, ast.Name) and st.value.id in aliases and cls is not None:
                        attr = repo.mangle(cls.name, t.attr)
                        if attr in mutated_through_self(repo, cls):
                            how = "kept as self.%s, which the class mutates in place" % t.attr
            if isinstance(st, ast.Call) and isinstance(st.func, ast.Attribute) and st.func.attr in PARAM_MUTATORS and _root_name(st.func.value) in aliases:
                how = "mutated by .%s()" % st.func.attr
        if how:
            out.append((p.arg, ast.unparse(d)[:40], how))
    return out, n


FIXTURE = '''
class _Fixture(object):
    def __init__(self, props={}):
        self._props = props
    def setProp(self, k, v):
        self._props[k] = v
def _fixture_fn(message=dict()):
    m = message
    m["x"] = 1
    return m
'''


def shared_defaults(ctx, rule, prefixes):
    """one instance per parameter default in the given files; a default object shared by all calls (mutable literal or
    call result) that the function mutates - or stores on self where the class mutates it - leaks state between calls,
    instances, stacks"""
    repo = ctx.repo
    # positive fixture: the detector must recognise both shapes on every run
    ft = ast.parse(FIXTURE)

    class _K:
        name = "_Fixture"
        methods = {f.name: f for f in ft.body[0].body}
        consts = {}

    class _R:
        @staticmethod
        def mro(c):
            return [c]
        mangle = staticmethod(repo.mangle)
    f1, _ = default_findings(_R, _K, ft.body[0].body[0], "<fixture>")
    f2, _ = default_findings(_R, None, ft.body[1], "<fixture>")
    if not f1 or not f2:
        ctx.undecided(rule, where("", "", None), "positive fixture", "the mutable-default detector no longer recognises its fixture")
        return
    total = 0
    for m in sorted(repo.modules.values(), key=lambda m: m.relpath):
        if not any(m.relpath.startswith(p) for p in prefixes) or "/test_" in m.relpath or m.relpath.rsplit("/", 1)[-1].startswith("test_"):
            continue
        units = [(None, f) for f in m.functions.values()] + [(c, f) for c in m.classes.values() for f in c.methods.values()]
        for c, f in units:
            found, n = default_findings(repo, c, f, m.relpath)
            total += n
            qn = (c.name + "." if c else "") + f.name
            for pname, dtxt, how in found:
                repo.consulted.add(m.relpath)
                ctx.violate(rule, where(m.relpath, qn, f.lineno), "parameter %s = %s" % (pname, dtxt),
                            "the default `%s` is one object shared by every call and it is %s: what one call / instance puts into it is seen by the next" % (dtxt, how))
    ctx.hold(rule, where("", "", None), "parameter defaults in %s" % ", ".join(prefixes)[:80], "%d defaults examined: none is a shared object that gets mutated" % total)
    return total


def stateless_after_init(ctx, rule, cls, allowed=(), why=""):
    """objects that serve every call of a layer (the codec's encoder / decoder): outside the constructor no method
    mutates or rebinds an instance attribute, directly or through a local alias - whatever a call that fails half-way
    left behind would be seen by the next call"""
    from .repo import inline_self_aliases
    repo = ctx.repo
    n = 0
    bad = []
    for k in repo.mro(cls):
        for name, f in sorted(k.methods.items()):
            if name == "__init__":
                continue
            n += 1
            f2, _ = inline_self_aliases(f)
            for x in ast.walk(f2):
                attr = None
                if isinstance(x, ast.Call) and isinstance(x.func, ast.Attribute) and x.func.attr in (MUTATORS - PURE_READS) \
                        and isinstance(x.func.value, ast.Attribute) and isinstance(x.func.value.value, ast.Name) and x.func.value.value.id == "self":
                    attr = x.func.value.attr
                elif isinstance(x, (ast.Assign, ast.AugAssign, ast.Delete)):
                    for t in ([x.target] if isinstance(x, ast.AugAssign) else x.targets):
                        base = t
                        sub = False
                        while isinstance(base, ast.Subscript):
                            base = base.value
                            sub = True
                        # element stores / deletions and augmented updates of a container; setting a plain flag is session state
                        if (sub or isinstance(x, ast.AugAssign)) and isinstance(base, ast.Attribute) and isinstance(base.value, ast.Name) and base.value.id == "self":
                            attr = base.attr
                if attr is not None and attr not in allowed:
                    bad.append((k, name, attr, x))
    for k, name, attr, x in bad:
        ctx.violate(rule, where(k.relpath, "%s.%s" % (k.name, name), getattr(x, "lineno", None)), "self.%s changed in %s.%s" % (attr, k.name, name),
                    "%s keeps per-call data in the instance attribute `%s` (%s): it serves every call, so what a call that raised half-way left there is prepended to / mixed into the next one%s" % (cls.name, attr, ast.unparse(x)[:50], why))
    if not bad:
        ctx.hold(rule, where(cls.relpath, cls.name, None), "%s is stateless between calls" % cls.name, "%d method(s): no instance attribute is changed outside the constructor" % n)
    return n
