"""Tiny return-type inference (definite types only) for expressions in the codec / entities.

Types: 'bytes' 'bytearray' 'str' 'int' 'list' 'dict' 'bool' 'None' 'iter' and 'unknown'.
'unknown' never produces a violation.
"""
import ast

from .repo import is_self_attr

BUILTIN_RET = {"bytes": "bytes", "bytearray": "bytearray", "str": "str", "int": "int", "len": "int", "list": "list",
               "map": "iter", "filter": "iter", "dict": "dict", "bool": "bool", "chr": "str", "ord": "int", "repr": "str",
               "float": "float", "tuple": "tuple", "sorted": "list", "range": "iter", "hex": "str"}
STR_METHODS_RET_STR = {"join", "format", "lower", "upper", "strip", "replace", "decode", "title", "lstrip", "rstrip"}


def expr_types(repo, cls, fn, e, resolver=None, depth=0, env=None):
    env = env or {}
    U = {"unknown"}
    if e is None:
        return {"None"}
    if isinstance(e, ast.Constant):
        v = e.value
        if v is None:
            return {"None"}
        return {type(v).__name__}
    if isinstance(e, ast.JoinedStr):
        return {"str"}
    if isinstance(e, (ast.List, ast.ListComp)):
        return {"list"}
    if isinstance(e, (ast.Dict, ast.DictComp)):
        return {"dict"}
    if isinstance(e, ast.Tuple):
        return {"tuple"}
    if isinstance(e, ast.IfExp):
        return expr_types(repo, cls, fn, e.body, resolver, depth, env) | expr_types(repo, cls, fn, e.orelse, resolver, depth, env)
    if isinstance(e, ast.BoolOp):
        out = set()
        for v in e.values:
            out |= expr_types(repo, cls, fn, v, resolver, depth, env)
        return out
    if isinstance(e, ast.Compare):
        return {"bool"}
    if isinstance(e, ast.BinOp):
        l = expr_types(repo, cls, fn, e.left, resolver, depth, env)
        r = expr_types(repo, cls, fn, e.right, resolver, depth, env)
        if isinstance(e.op, ast.Mod) and l == {"str"}:
            return {"str"}
        if isinstance(e.op, ast.Add):
            for t in ("str", "bytes", "list"):
                if l == {t} or r == {t}:
                    return {t}
        if l == {"int"} and r == {"int"}:
            return {"int"}
        return U
    if isinstance(e, ast.Name):
        if e.id in env:
            return env[e.id]
        if fn is not None:
            out = set()
            found = False
            for n in ast.walk(fn):
                if isinstance(n, ast.Assign):
                    for t in n.targets:
                        if isinstance(t, ast.Name) and t.id == e.id and depth < 4:
                            found = True
                            out |= expr_types(repo, cls, fn, n.value, resolver, depth + 1, env)
            if found:
                return out
        return U
    if isinstance(e, ast.Call):
        f = e.func
        if isinstance(f, ast.Name) and f.id in BUILTIN_RET:
            return {BUILTIN_RET[f.id]}
        if isinstance(f, ast.Attribute):
            if f.attr == "encode":
                return {"bytes"}
            if f.attr in STR_METHODS_RET_STR and f.attr != "decode":
                rt = expr_types(repo, cls, fn, f.value, resolver, depth, env)
                if rt == {"str"}:
                    return {"str"}
            if f.attr == "decode":
                return {"str"}
            if is_self_attr(f) and cls is not None and depth < 4:
                k, m = repo.find_method(cls, f.attr)
                if m is not None:
                    return return_types(repo, k, m, resolver, depth + 1)
            if resolver is not None and cls is not None and depth < 4:
                mod = cls.module
                for (k, m, impl) in resolver.resolve_call(mod, cls, fn, e):
                    if m.name != "__init__":
                        return return_types(repo, k, m, resolver, depth + 1)
        return U
    return U


def return_types(repo, cls, fn, resolver=None, depth=0):
    out = set()
    has = False
    for n in ast.walk(fn):
        if isinstance(n, ast.Return):
            has = True
            out |= expr_types(repo, cls, fn, n.value, resolver, depth)
    if not has:
        return {"None"}
    return out
