"""Def-use term construction along CFG paths (no solver, no execution).

For one path through a function every local variable is mapped to a *term* describing how
its value was computed from the parameters, self attributes and constants:

  ('param', name) ('const', value) ('self', attr) ('name', free_name)
  ('call', func_text, recv_term_or_None, (arg terms...), ((kw, term)...))
  ('sub', base, index) ('slice', base, lo, hi, step) ('bin', op, l, r) ('un', op, x)
  ('attr', base, name) ('tuple', items...) ('cmp', op, l, r) ('bool', op, items...)
  ('ifexp', test, a, b) ('unk', text)

Every call evaluated on the path is also recorded, in evaluation order, as an *event*
(node, func_text, recv_var_name, recv_term, args, kwargs, result_term), which is what the
ordering rules (update order of a MAC object, write order of a hash) look at.
"""
import ast

from .cfg import enum_paths, static_truth
from .consts import alts
from .repo import unparse


def T_const(v):
    return ("const", v)


class PathEval:
    def __init__(self, fn, ev=None, selfname="self"):
        self.fn = fn
        self.ev = ev          # consts.Evaluator for class/module constants
        self.selfname = selfname
        a = fn.args
        self.params = [x.arg for x in a.posonlyargs + a.args + a.kwonlyargs]

    def run(self, path):
        env = {}
        for p in self.params:
            if p != self.selfname:
                env[p] = ("param", p)
        events = []
        conds = []
        ret = None
        raised = None
        for (n, kind) in path:
            s = n.stmt
            if s is None:
                continue
            if n.kind == "test":
                t = self.term(s.test, env, events, n)
                conds.append((n, t, kind))
                continue
            if n.kind == "loop":
                it = self.term(s.iter, env, events, n)
                if kind == "true":
                    self._bind(s.target, ("iter", it), env)
                continue
            if n.kind == "with_enter":
                for item in s.items:
                    t = self.term(item.context_expr, env, events, n)
                    if item.optional_vars is not None:
                        self._bind(item.optional_vars, t, env)
                continue
            if n.kind == "handler":
                if s.name:
                    env[s.name] = ("exc", unparse(s.type) if s.type else "")
                continue
            if n.kind != "stmt":
                continue
            if kind == "exc" and not isinstance(s, ast.Raise):
                # statement raised while evaluating: record its calls but no binding
                self._eval_stmt_exprs(s, env, events, n)
                continue
            if isinstance(s, ast.Assign):
                t = self.term(s.value, env, events, n)
                for tgt in s.targets:
                    self._bind(tgt, t, env)
            elif isinstance(s, ast.AugAssign):
                t = self.term(s.value, env, events, n)
                if isinstance(s.target, ast.Name):
                    env[s.target.id] = ("bin", type(s.op).__name__, env.get(s.target.id, ("name", s.target.id)), t)
                elif isinstance(s.target, ast.Attribute) and isinstance(s.target.value, ast.Name) and s.target.value.id == self.selfname:
                    k = "self." + s.target.attr
                    env[k] = ("bin", type(s.op).__name__, env.get(k, ("self", s.target.attr)), t)
            elif isinstance(s, ast.AnnAssign) and s.value is not None:
                self._bind(s.target, self.term(s.value, env, events, n), env)
            elif isinstance(s, ast.Return):
                ret = self.term(s.value, env, events, n) if s.value is not None else T_const(None)
            elif isinstance(s, ast.Raise):
                raised = self.term(s.exc, env, events, n) if s.exc is not None else ("reraise",)
            elif isinstance(s, ast.Expr):
                self.term(s.value, env, events, n)
            elif isinstance(s, ast.Assert):
                self.term(s.test, env, events, n)
            elif isinstance(s, ast.Delete):
                pass
        return {"env": env, "events": events, "conds": conds, "ret": ret, "raised": raised}

    def _eval_stmt_exprs(self, s, env, events, n):
        for c in ast.iter_child_nodes(s):
            if isinstance(c, ast.expr):
                self.term(c, env, events, n)

    def _bind(self, tgt, t, env):
        if isinstance(tgt, ast.Name):
            env[tgt.id] = t
        elif isinstance(tgt, (ast.Tuple, ast.List)):
            for i, e in enumerate(tgt.elts):
                if isinstance(t, tuple) and t and t[0] == "tuple" and len(t) - 1 == len(tgt.elts):
                    self._bind(e, t[1 + i], env)          # a, b = (x, y): element-wise
                else:
                    self._bind(e, ("sub", t, T_const(i)), env)
        elif isinstance(tgt, ast.Attribute) and isinstance(tgt.value, ast.Name) and tgt.value.id == self.selfname:
            env["self." + tgt.attr] = t
        elif isinstance(tgt, ast.Subscript):
            base = unparse(tgt.value)
            env.setdefault("@store", [])
            env["@store"].append((base, tgt, t))

    def term(self, e, env, events, node):
        if e is None:
            return T_const(None)
        if isinstance(e, ast.Constant):
            return T_const(e.value)
        if isinstance(e, ast.Name):
            if e.id in env:
                return env[e.id]
            if e.id in ("True", "False", "None"):
                return T_const({"True": True, "False": False, "None": None}[e.id])
            if self.ev is not None:
                a = alts(self.ev.ev(e))
                if a is not None and len(a) == 1:
                    return T_const(a[0])
            return ("name", e.id)
        if isinstance(e, ast.Attribute):
            if isinstance(e.value, ast.Name) and e.value.id == self.selfname:
                k = "self." + e.attr
                if k in env:
                    return env[k]
                if self.ev is not None:
                    a = alts(self.ev.ev(e))
                    if a is not None and len(a) == 1:
                        return T_const(a[0])
                return ("self", e.attr)
            if self.ev is not None:
                a = alts(self.ev.ev(e))
                if a is not None and len(a) == 1:
                    return T_const(a[0])
            return ("attr", self.term(e.value, env, events, node), e.attr)
        if isinstance(e, ast.Call):
            f = e.func
            recv = None
            recv_var = None
            if isinstance(f, ast.Attribute):
                recv = self.term(f.value, env, events, node)
                recv_var = unparse(f.value)
                ftxt = f.attr
            else:
                ftxt = unparse(f)
            args = tuple(self.term(a.value if isinstance(a, ast.Starred) else a, env, events, node) for a in e.args)
            kws = tuple((k.arg, self.term(k.value, env, events, node)) for k in e.keywords)
            res = ("call", ftxt, recv, args, kws)
            events.append({"node": node, "func": ftxt, "recv_var": recv_var, "recv": recv, "args": args, "kwargs": kws, "result": res, "ast": e})
            return res
        if isinstance(e, ast.Subscript):
            base = self.term(e.value, env, events, node)
            if isinstance(e.slice, ast.Slice):
                lo = self.term(e.slice.lower, env, events, node) if e.slice.lower is not None else T_const(None)
                hi = self.term(e.slice.upper, env, events, node) if e.slice.upper is not None else T_const(None)
                st = self.term(e.slice.step, env, events, node) if e.slice.step is not None else T_const(None)
                return ("slice", base, lo, hi, st)
            return ("sub", base, self.term(e.slice, env, events, node))
        if isinstance(e, ast.BinOp):
            l_, r_ = self.term(e.left, env, events, node), self.term(e.right, env, events, node)
            if l_[0] == "const" and r_[0] == "const" and isinstance(l_[1], int) and isinstance(r_[1], int) and not isinstance(l_[1], bool) and not isinstance(r_[1], bool) \
                    and isinstance(e.op, (ast.Add, ast.Sub, ast.Mult)):
                import operator
                return T_const({ast.Add: operator.add, ast.Sub: operator.sub, ast.Mult: operator.mul}[type(e.op)](l_[1], r_[1]))
            return ("bin", type(e.op).__name__, l_, r_)
        if isinstance(e, ast.UnaryOp):
            x = self.term(e.operand, env, events, node)
            if isinstance(e.op, ast.USub) and x[0] == "const" and isinstance(x[1], (int, float)):
                return T_const(-x[1])
            return ("un", type(e.op).__name__, x)
        if isinstance(e, ast.Compare) and len(e.ops) == 1:
            return ("cmp", type(e.ops[0]).__name__, self.term(e.left, env, events, node), self.term(e.comparators[0], env, events, node))
        if isinstance(e, ast.BoolOp):
            return ("bool", type(e.op).__name__) + tuple(self.term(v, env, events, node) for v in e.values)
        if isinstance(e, (ast.Tuple, ast.List)):
            return ("tuple",) + tuple(self.term(v, env, events, node) for v in e.elts)
        if isinstance(e, ast.IfExp) and static_truth(e.test) is not None:
            return self.term(e.body if static_truth(e.test) else e.orelse, env, events, node)
        if isinstance(e, ast.IfExp):
            return ("ifexp", self.term(e.test, env, events, node), self.term(e.body, env, events, node), self.term(e.orelse, env, events, node))
        if isinstance(e, ast.Dict):
            items = []
            for k, v in zip(e.keys, e.values):
                items.append((self.term(k, env, events, node) if k is not None else ("unk", "**"), self.term(v, env, events, node)))
            return ("dict",) + tuple(items)
        if isinstance(e, ast.JoinedStr):
            return ("fstr",) + tuple(self.term(v.value, env, events, node) for v in e.values if isinstance(v, ast.FormattedValue))
        if isinstance(e, ast.Lambda):
            return ("lambda", unparse(e))
        return ("unk", unparse(e))


def subterms(t):
    """all sub-terms of t (including t); argument tuples are traversed but not yielded"""
    out = []
    todo = [t]
    while todo:
        x = todo.pop()
        if not isinstance(x, tuple) or not x:
            continue
        if isinstance(x[0], str):
            out.append(x)
            rest = x[1:]
        else:
            rest = x
        for y in rest:
            if isinstance(y, tuple):
                todo.append(y)
    return out


def mentions(t, pred):
    return any(pred(x) for x in subterms(t))


def show(t, depth=0):
    if not isinstance(t, tuple) or not t:
        return repr(t)
    k = t[0]
    if depth > 6:
        return "..."
    if k == "param":
        return t[1]
    if k == "const":
        return repr(t[1])
    if k == "self":
        return "self." + t[1]
    if k == "name":
        return t[1]
    if k == "call":
        r = (show(t[2], depth + 1) + ".") if t[2] is not None else ""
        a = [show(x, depth + 1) for x in t[3]] + ["%s=%s" % (kk, show(v, depth + 1)) for kk, v in t[4]]
        return "%s%s(%s)" % (r, t[1], ", ".join(a))
    if k == "sub":
        return "%s[%s]" % (show(t[1], depth + 1), show(t[2], depth + 1))
    if k == "slice":
        f = lambda x: "" if x == ("const", None) else show(x, depth + 1)
        return "%s[%s:%s]" % (show(t[1], depth + 1), f(t[2]), f(t[3]))
    if k == "bin":
        return "(%s %s %s)" % (show(t[2], depth + 1), t[1], show(t[3], depth + 1))
    if k == "attr":
        return "%s.%s" % (show(t[1], depth + 1), t[2])
    if k == "cmp":
        return "(%s %s %s)" % (show(t[2], depth + 1), t[1], show(t[3], depth + 1))
    return "%s(%s)" % (k, ", ".join(show(x, depth + 1) if isinstance(x, tuple) else repr(x) for x in t[1:]))


def all_path_results(cfg, pe, max_visits=2, normal_only=True):
    out = []
    for path, term in enum_paths(cfg, max_visits=max_visits):
        r = pe.run(path)
        r["terminal"] = "exit" if term is cfg.exit else "raise"
        r["path"] = path
        out.append(r)
    return out
