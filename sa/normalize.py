"""Source-level normalisations applied before structural rules look at a function.

Behaviour-preserving rewrites that programmers make (and that structural matching must not depend on) are undone:

  guarded_returns_to_ifexp   `if C: return A` ... `return B`             -> `return A if C else B`     (helper bodies)
  unroll_const_loops         `for x in ("a", "b"): body`                 -> body[x:="a"]; body[x:="b"]
  attr_by_name               `getattr(o, "f")` / `setattr(o, "f", v)`    -> `o.f` / `o.f = v`
  continue_to_guard          `if C: continue` + rest (in an unrolled body, i.e. plain block) -> `if not C: rest`
  inline_single_use_temps    `t = E` used once, nothing in between rebinding E's operands     -> E at the use
  flip_not_ifexp             `A if not C else B`                         -> `B if C else A`

`normalize_method(repo, cls, fn)` = private-helper inlining (sa/repo.inline_private_calls) + all of the above, to a
fixpoint.  All functions return new trees; the repository's trees are never mutated.
"""
import ast
import copy

from .consts import Evaluator, alts
from .repo import inline_private_calls, unparse


def _is_const_str(e):
    return isinstance(e, ast.Constant) and isinstance(e.value, str) and e.value.isidentifier()


class _AttrByName(ast.NodeTransformer):
    def visit_Call(self, node):
        self.generic_visit(node)
        if isinstance(node.func, ast.Name) and not node.keywords:
            if node.func.id == "getattr" and len(node.args) == 2 and _is_const_str(node.args[1]):
                return ast.copy_location(ast.Attribute(value=node.args[0], attr=node.args[1].value, ctx=ast.Load()), node)
        return node

    def visit_Expr(self, node):
        self.generic_visit(node)
        c = node.value
        if isinstance(c, ast.Call) and isinstance(c.func, ast.Name) and c.func.id == "setattr" and len(c.args) == 3 and not c.keywords and _is_const_str(c.args[1]):
            return ast.copy_location(ast.Assign(targets=[ast.Attribute(value=c.args[0], attr=c.args[1].value, ctx=ast.Store())], value=c.args[2]), node)
        return node


class _FlipNot(ast.NodeTransformer):
    def visit_IfExp(self, node):
        self.generic_visit(node)
        if isinstance(node.test, ast.UnaryOp) and isinstance(node.test.op, ast.Not):
            return ast.copy_location(ast.IfExp(test=node.test.operand, body=node.orelse, orelse=node.body), node)
        return node


def _subst(stmts, name, value):
    class S(ast.NodeTransformer):
        def visit_Name(self, n):
            if n.id == name and isinstance(n.ctx, ast.Load):
                return ast.copy_location(copy.deepcopy(value), n)
            return n
    return [S().visit(copy.deepcopy(s)) for s in stmts]


def _blocks(node):
    for fld in ("body", "orelse", "finalbody"):
        b = getattr(node, fld, None)
        if isinstance(b, list) and b and isinstance(b[0], ast.stmt):
            yield fld, b
    if isinstance(node, ast.Try):
        for h in node.handlers:
            yield None, h.body


def _map_blocks(fn, f):
    """apply f(list of stmts) -> list of stmts to every statement list, innermost first"""
    def rec(node):
        for fld in ("body", "orelse", "finalbody"):
            b = getattr(node, fld, None)
            if isinstance(b, list) and b and isinstance(b[0], ast.stmt):
                for s in b:
                    rec(s)
                setattr(node, fld, f(b))
        if isinstance(node, ast.Try):
            for h in node.handlers:
                for s in h.body:
                    rec(s)
                h.body = f(h.body)
    rec(fn)
    return fn


def unroll_const_loops(repo, cls, fn, limit=64):
    ev = Evaluator(repo, cls.module, cls) if cls is not None else None
    changed = [False]
    work = [None]

    def has_break(stmts):
        for s in stmts:
            for x in ast.walk(s):
                if isinstance(x, ast.Break):
                    return True
        return False

    def f(stmts):
        out = []
        for s in stmts:
            if isinstance(s, ast.For) and isinstance(s.target, ast.Name) and not s.orelse and ev is not None and not has_break(s.body):
                a = alts(ev.ev(s.iter))
                if a is not None and len(a) == 1 and isinstance(a[0], (tuple, list)) and len(a[0]) <= limit \
                        and all(isinstance(x, (str, int, bytes, bool, type(None))) for x in a[0]) \
                        and not any(isinstance(x, ast.Name) and x.id == s.target.id and isinstance(x.ctx, ast.Store) for b in s.body for x in ast.walk(b)):
                    changed[0] = True
                    # locals of the loop body that nothing outside the loop reads get one name per iteration
                    inside = {id(x) for b in s.body for x in ast.walk(b)}
                    stored = {x.id for b in s.body for x in ast.walk(b) if isinstance(x, ast.Name) and isinstance(x.ctx, ast.Store)}
                    read_outside = {x.id for x in ast.walk(work[0]) if isinstance(x, ast.Name) and isinstance(x.ctx, ast.Load) and id(x) not in inside}
                    private = stored - read_outside
                    for k, v in enumerate(a[0]):
                        body = _subst(s.body, s.target.id, ast.Constant(value=v))
                        if private:
                            class R(ast.NodeTransformer):
                                def visit_Name(self, n):
                                    if n.id in private:
                                        return ast.copy_location(ast.Name(id="%s__%d" % (n.id, k), ctx=n.ctx), n)
                                    return n
                            body = [R().visit(b) for b in body]
                        out += continue_to_guard_block(body)
                    continue
            out.append(s)
        return out
    work[0] = copy.deepcopy(fn)
    new = _map_blocks(work[0], f)
    return (new if changed[0] else fn)


def continue_to_guard_block(stmts):
    """inside one unrolled iteration: `if C: continue` followed by the rest -> `if not C: rest`; a trailing
    `continue` is dropped.  Only top-level continues of the block are handled; others leave the block unchanged."""
    def top_level_only(block):
        for s in block:
            for x in ast.walk(s):
                if isinstance(x, ast.Continue):
                    if not (isinstance(s, ast.Continue) or (isinstance(s, ast.If) and len(s.body) == 1 and isinstance(s.body[0], ast.Continue) and not s.orelse)):
                        return False
        return True
    if not any(isinstance(x, ast.Continue) for s in stmts for x in ast.walk(s)):
        return stmts
    if not top_level_only(stmts):
        return stmts
    out = []
    for i, s in enumerate(stmts):
        if isinstance(s, ast.Continue):
            return out
        if isinstance(s, ast.If) and len(s.body) == 1 and isinstance(s.body[0], ast.Continue) and not s.orelse:
            rest = continue_to_guard_block(stmts[i + 1:])
            if rest:
                out.append(ast.copy_location(ast.If(test=_negate(s.test), body=rest, orelse=[]), s))
            return out
        out.append(s)
    return out


def _negate(t):
    if isinstance(t, ast.UnaryOp) and isinstance(t.op, ast.Not):
        return t.operand
    if isinstance(t, ast.Compare) and len(t.ops) == 1:
        inv = {ast.Is: ast.IsNot, ast.IsNot: ast.Is, ast.Eq: ast.NotEq, ast.NotEq: ast.Eq, ast.In: ast.NotIn, ast.NotIn: ast.In,
               ast.Lt: ast.GtE, ast.GtE: ast.Lt, ast.Gt: ast.LtE, ast.LtE: ast.Gt}.get(type(t.ops[0]))
        if inv is not None:
            return ast.copy_location(ast.Compare(left=t.left, ops=[inv()], comparators=t.comparators), t)
    return ast.copy_location(ast.UnaryOp(op=ast.Not(), operand=t), t)


def guarded_returns_to_ifexp(fn):
    """a body made only of `if C: return A` statements followed by `return B` becomes one `return A if C else B`"""
    body = [s for s in fn.body if not (isinstance(s, ast.Expr) and isinstance(s.value, ast.Constant))]
    if len(body) < 2 or not isinstance(body[-1], ast.Return) or body[-1].value is None:
        return fn
    conds = []
    for s in body[:-1]:
        if isinstance(s, ast.If) and not s.orelse and len(s.body) == 1 and isinstance(s.body[0], ast.Return):
            conds.append((s.test, s.body[0].value if s.body[0].value is not None else ast.Constant(value=None)))
        else:
            return fn
    e = body[-1].value
    for test, val in reversed(conds):
        e = ast.IfExp(test=test, body=val, orelse=e)
    new = copy.deepcopy(fn)
    new.body = [ast.Return(value=copy.deepcopy(e))]
    ast.copy_location(new.body[0], body[-1])
    ast.fix_missing_locations(new)
    return new


def inline_single_use_temps(fn, keep=()):
    """`t = E` (t bound once in the function, read exactly once, in the next statement or the one after within the same
    block, E free of calls with side effects other than attribute reads / HasField / getattr) -> E at the use"""
    counts_store, counts_load = {}, {}
    for n in ast.walk(fn):
        if isinstance(n, ast.Name):
            d = counts_store if isinstance(n.ctx, ast.Store) else counts_load
            d[n.id] = d.get(n.id, 0) + 1
    params = {a.arg for a in fn.args.args + fn.args.kwonlyargs}
    changed = [False]

    def pure(e):
        for x in ast.walk(e):
            if isinstance(x, ast.Call):
                f = x.func
                if not ((isinstance(f, ast.Attribute) and f.attr in ("HasField", "get")) or (isinstance(f, ast.Name) and f.id in ("getattr", "len", "int", "str", "bytes"))):
                    return False
            if isinstance(x, (ast.Yield, ast.Await, ast.Lambda)):
                return False
        return True

    def f(stmts):
        out = list(stmts)
        i = 0
        while i < len(out):
            s = out[i]
            if isinstance(s, ast.Assign) and len(s.targets) == 1 and isinstance(s.targets[0], ast.Name):
                t = s.targets[0].id
                if t not in params and t not in keep and counts_store.get(t) == 1 and counts_load.get(t, 0) in (1, 2) and pure(s.value) and i + 1 < len(out):
                    nxt = out[i + 1]
                    uses = [x for x in ast.walk(nxt) if isinstance(x, ast.Name) and x.id == t and isinstance(x.ctx, ast.Load)]
                    rebinds = {x.id for x in ast.walk(s.value) if isinstance(x, ast.Name)}
                    # all reads are in the next statement, which does not rebind an operand before reading
                    if len(uses) == counts_load.get(t, 0) and not any(isinstance(x, ast.Name) and isinstance(x.ctx, ast.Store) and x.id in rebinds for x in ast.walk(nxt)):
                        # two reads only in the shape `if t is [not] None: ... t ...` (value tested, then used)
                        out[i + 1] = _subst([nxt], t, s.value)[0]
                        del out[i]
                        changed[0] = True
                        continue
            i += 1
        return out
    new = _map_blocks(copy.deepcopy(fn), f)
    return new if changed[0] else fn


def normalize_method(repo, cls, fn, inline=True, rounds=3):
    cur = fn
    for _ in range(rounds):
        before = ast.dump(cur)
        if inline and cls is not None:
            cur = inline_private_calls(repo, cls, cur, helper_transform=guarded_returns_to_ifexp)
        cur = unroll_const_loops(repo, cls, cur)
        new = copy.deepcopy(cur)
        new = _AttrByName().visit(new)
        new = _FlipNot().visit(new)
        ast.fix_missing_locations(new)
        cur = new
        cur = inline_single_use_temps(cur)
        if ast.dump(cur) == before:
            break
    cur = _FlipNot().visit(copy.deepcopy(cur))
    ast.fix_missing_locations(cur)
    return cur
