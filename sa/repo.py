"""Module / class tables of /repo, rebuilt from source on every run.

Products: module table, import resolution (incl. star imports and package re-exports),
class table keyed by qualified name "module:Class", C3 MRO, method lookup, subclasses,
private-name mangling helpers.  Nothing here imports or executes repo code.
"""
import ast
import hashlib
import os
import sys

REPO = os.environ.get("VERIF_REPO", "/repo")
PKG = "yowsup"


class AnalysisError(Exception):
    """A fact the analyser needs could not be established (exit 2, never a VIOLATION)."""


class Module:
    def __init__(self, name, path, relpath, tree, src, is_pkg):
        self.name = name
        self.path = path
        self.relpath = relpath
        self.tree = tree
        self.src = src
        self.is_pkg = is_pkg
        self.classes = {}      # local name -> ClassInfo
        self.functions = {}    # local name -> FunctionDef
        self.assigns = {}      # local name -> value expr (last module-level assignment)
        self.imports = {}      # local name -> ('mod', modname) | ('from', modname, attr)
        self.stars = []        # modules star-imported
        self.sha = hashlib.sha256(src.encode("utf-8", "replace")).hexdigest()

    def package(self):
        return self.name if self.is_pkg else self.name.rpartition(".")[0]


class ClassInfo:
    def __init__(self, module, node, outer=None):
        self.module = module
        self.node = node
        self.name = node.name
        self.qname = module.name + ":" + (outer + "." if outer else "") + node.name
        self.methods = {}  # name -> last def (Python semantics); property getters are kept when a setter follows
        self.all_defs = []  # every def in the class body, in order (getter and setter of a property both appear)
        self.consts = {}   # class-level simple assignments name -> expr
        for s in node.body:
            if isinstance(s, (ast.FunctionDef, ast.AsyncFunctionDef)):
                self.all_defs.append(s)
                is_setter = any(isinstance(d, ast.Attribute) and d.attr in ("setter", "deleter") for d in s.decorator_list)
                if is_setter and s.name in self.methods:
                    continue
                self.methods[s.name] = s
            elif isinstance(s, ast.Assign):
                for t in s.targets:
                    if isinstance(t, ast.Name):
                        self.consts[t.id] = s.value
        self.bases = None  # resolved lazily: list[ClassInfo]
        self.ext_bases = []  # unresolved base expressions (external classes)
        self._mro = None

    def __repr__(self):
        return "<Class %s>" % self.qname

    @property
    def relpath(self):
        return self.module.relpath


def _walk_py(root):
    for dp, dn, fn in os.walk(root):
        dn[:] = sorted(d for d in dn if d != "__pycache__")
        for f in sorted(fn):
            if f.endswith(".py"):
                yield os.path.join(dp, f)


class Repo:
    def __init__(self, root=None, include_tests=False, overlay=None):
        """overlay: {relpath: source text} replaces files of the tree in memory (used by the
        both-ways self-test to analyse a variant without writing a scratch copy)."""
        self.root = root or REPO
        overlay = overlay or {}
        self.modules = {}
        self.by_relpath = {}
        self.classes = {}        # qname -> ClassInfo
        self.by_simple = {}      # simple name -> [ClassInfo]
        self.consulted = set()   # relpaths rules actually looked at
        self.parse_errors = []
        pkgroot = os.path.join(self.root, PKG)
        if not os.path.isdir(pkgroot):
            raise AnalysisError("package directory %s not found" % pkgroot)
        for p in _walk_py(pkgroot):
            rel = os.path.relpath(p, self.root)
            base = os.path.basename(p)
            if not include_tests and base.startswith("test_"):
                continue
            try:
                if rel in overlay:
                    src = overlay[rel]
                else:
                    with open(p, encoding="utf-8", errors="replace") as fh:
                        src = fh.read()
                tree = ast.parse(src, filename=rel)
            except SyntaxError as e:
                self.parse_errors.append((rel, str(e)))
                continue
            parts = rel[:-3].split(os.sep)
            is_pkg = parts[-1] == "__init__"
            if is_pkg:
                parts = parts[:-1]
            name = ".".join(parts)
            m = Module(name, p, rel, tree, src, is_pkg)
            self.modules[name] = m
            self.by_relpath[rel] = m
        for m in self.modules.values():
            self._index(m)
        for c in list(self.classes.values()):
            self._resolve_bases(c)
        self.subclasses = {}
        for c in self.classes.values():
            for b in c.bases:
                self.subclasses.setdefault(b.qname, []).append(c)

    # ---------------------------------------------------------------- indexing
    def _index(self, m):
        def visit(stmts):
            for s in stmts:
                if isinstance(s, ast.ClassDef):
                    ci = ClassInfo(m, s)
                    m.classes[s.name] = ci
                    self.classes[ci.qname] = ci
                    self.by_simple.setdefault(s.name, []).append(ci)
                elif isinstance(s, (ast.FunctionDef, ast.AsyncFunctionDef)):
                    m.functions[s.name] = s
                elif isinstance(s, ast.Assign):
                    for t in s.targets:
                        if isinstance(t, ast.Name):
                            m.assigns[t.id] = s.value
                elif isinstance(s, ast.Import):
                    for a in s.names:
                        local = a.asname or a.name.split(".")[0]
                        m.imports[local] = ("mod", a.name if a.asname else a.name.split(".")[0])
                elif isinstance(s, ast.ImportFrom):
                    src = self._abs_from(m, s)
                    for a in s.names:
                        if a.name == "*":
                            m.stars.append(src)
                        else:
                            m.imports[a.asname or a.name] = ("from", src, a.name)
                elif isinstance(s, ast.Try):
                    visit(s.body)
                    for h in s.handlers:
                        visit(h.body)
                    visit(s.orelse)
                    visit(s.finalbody)
                elif isinstance(s, ast.If):
                    visit(s.body)
                    visit(s.orelse)
        visit(m.tree.body)

    def _abs_from(self, m, s):
        if s.level == 0:
            return s.module or ""
        pkg = m.package().split(".")
        if s.level > 1:
            pkg = pkg[: len(pkg) - (s.level - 1)]
        base = ".".join(pkg)
        return base + ("." + s.module if s.module else "")

    # ---------------------------------------------------------------- name resolution
    def resolve_name(self, m, name, _seen=None):
        """-> ('class', ClassInfo) | ('func', Module, FunctionDef) | ('module', Module)
              | ('assign', Module, expr) | ('ext', dotted) | None"""
        _seen = _seen or set()
        key = (m.name, name)
        if key in _seen:
            return None
        _seen.add(key)
        if name in m.classes:
            return ("class", m.classes[name])
        if name in m.functions:
            return ("func", m, m.functions[name])
        if name in m.imports:
            imp = m.imports[name]
            if imp[0] == "mod":
                mm = self.modules.get(imp[1])
                return ("module", mm) if mm else ("ext", imp[1])
            _, src, attr = imp
            sub = self.modules.get(src + "." + attr)
            mm = self.modules.get(src)
            if mm is not None:
                r = self.resolve_name(mm, attr, _seen)
                if r:
                    return r
            if sub is not None:
                return ("module", sub)
            return ("ext", src + "." + attr)
        if name in m.assigns:
            return ("assign", m, m.assigns[name])
        for src in m.stars:
            mm = self.modules.get(src)
            if mm is not None:
                r = self.resolve_name(mm, name, _seen)
                if r and r[0] != "ext":
                    return r
        return None

    def resolve_expr_class(self, m, expr):
        """Resolve an expression (Name / dotted Attribute) used as a class reference."""
        if isinstance(expr, ast.Name):
            r = self.resolve_name(m, expr.id)
            if r and r[0] == "class":
                return r[1]
            return None
        if isinstance(expr, ast.Attribute):
            base = self.resolve_expr_module(m, expr.value)
            if base is not None:
                r = self.resolve_name(base, expr.attr)
                if r and r[0] == "class":
                    return r[1]
            return None
        return None

    def resolve_expr_module(self, m, expr):
        if isinstance(expr, ast.Name):
            r = self.resolve_name(m, expr.id)
            if r and r[0] == "module":
                return r[1]
            return None
        if isinstance(expr, ast.Attribute):
            base = self.resolve_expr_module(m, expr.value)
            if base is not None:
                sub = self.modules.get(base.name + "." + expr.attr)
                if sub:
                    return sub
                r = self.resolve_name(base, expr.attr)
                if r and r[0] == "module":
                    return r[1]
        return None

    def _resolve_bases(self, c):
        c.bases = []
        for b in c.node.bases:
            ci = self.resolve_expr_class(c.module, b)
            if ci is not None and ci is not c:
                c.bases.append(ci)
            else:
                c.ext_bases.append(ast.unparse(b))

    # ---------------------------------------------------------------- hierarchy
    def mro(self, c):
        if c._mro is not None:
            return c._mro
        c._mro = [c]  # cycle guard
        seqs = [list(self.mro(b)) for b in c.bases] + [list(c.bases)]
        res = [c]
        while True:
            seqs = [s for s in seqs if s]
            if not seqs:
                break
            cand = None
            for s in seqs:
                h = s[0]
                if not any(h in t[1:] for t in seqs):
                    cand = h
                    break
            if cand is None:
                # inconsistent hierarchy: fall back to DFS order
                for s in seqs:
                    for x in s:
                        if x not in res:
                            res.append(x)
                break
            res.append(cand)
            for s in seqs:
                if s[0] is cand:
                    del s[0]
        c._mro = res
        return res

    def is_subclass(self, c, base):
        return base in self.mro(c)

    def all_subclasses(self, c):
        out, todo = [], [c]
        while todo:
            x = todo.pop()
            for s in self.subclasses.get(x.qname, []):
                if s not in out:
                    out.append(s)
                    todo.append(s)
        return out

    def find_method(self, c, name, after=None):
        """-> (ClassInfo defining it, FunctionDef) or (None, None).  `after`: start lookup
        after that class in c's MRO (super(after, self).name)."""
        name = self.mangle(c, name) if False else name
        m = self.mro(c)
        if after is not None:
            if after in m:
                m = m[m.index(after) + 1:]
            else:
                m = self.mro(after)[1:]
        for k in m:
            if name in k.methods:
                return k, k.methods[name]
        return None, None

    def class_const(self, c, name):
        """-> (ClassInfo, expr) of a class-level assignment found along the MRO."""
        for k in self.mro(c):
            if name in k.consts:
                return k, k.consts[name]
        return None, None

    def instance_assigned(self, c):
        """names X for which some method of c (or a base) executes `self.X = ...`"""
        cache = self.__dict__.setdefault("_inst_assigned", {})
        if c.qname in cache:
            return cache[c.qname]
        out = set()
        for k in self.mro(c):
            for fn in k.methods.values():
                for n in ast.walk(fn):
                    tgts = []
                    if isinstance(n, ast.Assign):
                        tgts = n.targets
                    elif isinstance(n, (ast.AugAssign, ast.AnnAssign)):
                        tgts = [n.target]
                    for t in tgts:
                        for x in ast.walk(t):
                            if isinstance(x, ast.Attribute) and isinstance(x.value, ast.Name) and x.value.id == "self" and isinstance(x.ctx, ast.Store):
                                out.add(x.attr)
        cache[c.qname] = out
        return out

    @staticmethod
    def mangle(cname, attr):
        if attr.startswith("__") and not attr.endswith("__"):
            return "_" + cname.lstrip("_") + attr
        return attr

    # ---------------------------------------------------------------- access helpers
    def module(self, relpath, required=True):
        m = self.by_relpath.get(relpath)
        if m is None:
            if required:
                raise AnalysisError("anchor file vanished: %s" % relpath)
            return None
        self.consulted.add(relpath)
        return m

    def cls(self, relpath, name, required=True):
        m = self.module(relpath, required)
        if m is None:
            return None
        c = m.classes.get(name)
        if c is None and required:
            raise AnalysisError("anchor class vanished: %s:%s" % (relpath, name))
        return c

    def method(self, relpath, cname, mname, required=True, inherited=False):
        c = self.cls(relpath, cname, required)
        if c is None:
            return None
        if inherited:
            k, f = self.find_method(c, mname)
            if f is not None:
                self.consulted.add(k.relpath)
        else:
            f = c.methods.get(mname)
        if f is None and required:
            raise AnalysisError("anchor function vanished: %s:%s.%s" % (relpath, cname, mname))
        return f

    def digest(self, relpaths=None):
        h = hashlib.sha256()
        rels = sorted(relpaths if relpaths is not None else self.consulted)
        for r in rels:
            m = self.by_relpath.get(r)
            if m:
                h.update(r.encode())
                h.update(m.sha.encode())
        return h.hexdigest(), len(rels)

    def stats(self):
        nfunc = 0
        for m in self.modules.values():
            for n in ast.walk(m.tree):
                if isinstance(n, (ast.FunctionDef, ast.AsyncFunctionDef)):
                    nfunc += 1
        return {"files_parsed": len(self.modules), "classes": len(self.classes), "functions": nfunc}


# ------------------------------------------------------------------- small ast helpers
def unparse(n):
    try:
        return ast.unparse(n)
    except Exception:
        return "<%s>" % type(n).__name__


def norm_stmt(n, limit=160):
    """Normalised text of a statement (head only for compound statements)."""
    if isinstance(n, (ast.If, ast.While)):
        t = ("if " if isinstance(n, ast.If) else "while ") + unparse(n.test)
    elif isinstance(n, ast.For):
        t = "for %s in %s" % (unparse(n.target), unparse(n.iter))
    elif isinstance(n, (ast.FunctionDef, ast.AsyncFunctionDef)):
        t = "def %s(...)" % n.name
    elif isinstance(n, ast.ClassDef):
        t = "class %s" % n.name
    elif isinstance(n, ast.Try):
        t = "try"
    elif isinstance(n, ast.With):
        t = "with " + ", ".join(unparse(i.context_expr) for i in n.items)
    elif isinstance(n, ast.ExceptHandler):
        t = "except " + (unparse(n.type) if n.type else "")
    else:
        t = unparse(n)
    t = " ".join(t.split())
    return t if len(t) <= limit else t[: limit - 3] + "..."


def is_self_attr(n, attr=None, selfname="self"):
    return (isinstance(n, ast.Attribute) and isinstance(n.value, ast.Name)
            and n.value.id == selfname and (attr is None or n.attr == attr))


def call_name(call):
    """'f' for f(..), 'm' for x.m(..)"""
    f = call.func
    if isinstance(f, ast.Name):
        return f.id
    if isinstance(f, ast.Attribute):
        return f.attr
    return None


def iter_calls(node):
    for n in ast.walk(node):
        if isinstance(n, ast.Call):
            yield n


def params_of(fn, drop_self=True):
    a = fn.args
    names = [x.arg for x in a.posonlyargs + a.args]
    if drop_self and names and names[0] in ("self", "cls"):
        names = names[1:]
    return names


def func_is_static(fn):
    for d in fn.decorator_list:
        if isinstance(d, ast.Name) and d.id in ("staticmethod",):
            return True
    return False


def func_is_classmethod(fn):
    for d in fn.decorator_list:
        if isinstance(d, ast.Name) and d.id in ("classmethod",):
            return True
    return False


def inline_self_aliases(fn):
    """copy of function `fn` in which every local that is bound exactly once, by `x = self.attr`, and never rebound, is
    replaced by `self.attr` (the binding itself is dropped): `buf = self._read_buffer; buf.extend(d)` is analysed as
    `self._read_buffer.extend(d)`.  Only sound for attributes holding mutable objects that the function does not rebind
    before the last use of the alias - callers check that (`self.attr = ...` anywhere in fn disables the alias)."""
    import copy
    binds = {}
    stores = {}
    for n in ast.walk(fn):
        if isinstance(n, (ast.Assign, ast.AugAssign, ast.AnnAssign, ast.For, ast.With, ast.comprehension)):
            tgts = []
            if isinstance(n, ast.Assign):
                tgts = n.targets
            elif isinstance(n, (ast.AugAssign, ast.AnnAssign)):
                tgts = [n.target]
            elif isinstance(n, (ast.For, ast.comprehension)):
                tgts = [n.target]
            elif isinstance(n, ast.With):
                tgts = [i.optional_vars for i in n.items if i.optional_vars is not None]
            for t in tgts:
                for x in ast.walk(t):
                    if isinstance(x, ast.Name):
                        stores[x.id] = stores.get(x.id, 0) + 1
            if isinstance(n, ast.Assign) and len(n.targets) == 1 and isinstance(n.targets[0], ast.Name) and isinstance(n.value, ast.Attribute) \
                    and isinstance(n.value.value, ast.Name) and n.value.value.id == "self":
                binds[n.targets[0].id] = n
    rebound_attrs = {t.attr for n in ast.walk(fn) if isinstance(n, (ast.Assign, ast.AugAssign)) for t in (n.targets if isinstance(n, ast.Assign) else [n.target])
                     if isinstance(t, ast.Attribute) and isinstance(t.value, ast.Name) and t.value.id == "self"}
    params = {a.arg for a in fn.args.args + fn.args.kwonlyargs}
    alias = {name: st.value.attr for name, st in binds.items() if stores.get(name) == 1 and name not in params and st.value.attr not in rebound_attrs}
    if not alias:
        return fn, {}
    new = copy.deepcopy(fn)
    drop = {(st.lineno, st.col_offset) for name, st in binds.items() if name in alias}

    class T(ast.NodeTransformer):
        def visit_Name(self, node):
            if node.id in alias and isinstance(node.ctx, (ast.Load, ast.Del)):
                return ast.copy_location(ast.Attribute(value=ast.copy_location(ast.Name(id="self", ctx=ast.Load()), node), attr=alias[node.id], ctx=node.ctx), node)
            return node

        def visit_Assign(self, node):
            if (node.lineno, node.col_offset) in drop and len(node.targets) == 1 and isinstance(node.targets[0], ast.Name) and node.targets[0].id in alias:
                return ast.copy_location(ast.Pass(), node)
            return self.generic_visit(node)
    new = T().visit(new)
    ast.fix_missing_locations(new)
    return new, alias


def inline_attr_chain_aliases(fn):
    """copy of `fn` in which every local bound exactly once to a pure attribute chain rooted at self
    (`execute = self.dbConn.execute`, `q = self._queue`) and never rebound is replaced by that chain, provided no
    attribute of self that the chain goes through is assigned anywhere in fn"""
    import copy

    def chain(e):
        parts = []
        while isinstance(e, ast.Attribute):
            parts.append(e.attr)
            e = e.value
        if isinstance(e, ast.Name) and e.id == "self" and parts:
            return list(reversed(parts))
        return None
    stores, binds = {}, {}
    for n in ast.walk(fn):
        tgts = []
        if isinstance(n, ast.Assign):
            tgts = n.targets
        elif isinstance(n, (ast.AugAssign, ast.AnnAssign, ast.For, ast.comprehension)):
            tgts = [n.target]
        elif isinstance(n, ast.With):
            tgts = [i.optional_vars for i in n.items if i.optional_vars is not None]
        elif isinstance(n, ast.ExceptHandler) and n.name:
            stores[n.name] = stores.get(n.name, 0) + 1
        for t in tgts:
            for x in ast.walk(t):
                if isinstance(x, ast.Name):
                    stores[x.id] = stores.get(x.id, 0) + 1
        if isinstance(n, ast.Assign) and len(n.targets) == 1 and isinstance(n.targets[0], ast.Name) and chain(n.value) is not None:
            binds[n.targets[0].id] = n
    rebound = {t.attr for n in ast.walk(fn) if isinstance(n, (ast.Assign, ast.AugAssign)) for t in (n.targets if isinstance(n, ast.Assign) else [n.target])
               if isinstance(t, ast.Attribute) and isinstance(t.value, ast.Name) and t.value.id == "self"}
    params = {a.arg for a in fn.args.args + fn.args.kwonlyargs}
    alias = {name: st.value for name, st in binds.items() if stores.get(name) == 1 and name not in params and chain(st.value)[0] not in rebound}
    if not alias:
        return fn
    new = copy.deepcopy(fn)
    drop = {(st.lineno, st.col_offset) for name, st in binds.items() if name in alias}

    class T(ast.NodeTransformer):
        def visit_Name(self, node):
            if node.id in alias and isinstance(node.ctx, (ast.Load, ast.Del)):
                return ast.copy_location(copy.deepcopy(alias[node.id]), node)
            return node

        def visit_Assign(self, node):
            if (node.lineno, node.col_offset) in drop and len(node.targets) == 1 and isinstance(node.targets[0], ast.Name) and node.targets[0].id in alias:
                return ast.copy_location(ast.Pass(), node)
            return self.generic_visit(node)
    new = T().visit(new)
    ast.fix_missing_locations(new)
    return new


def inline_arith_temps(fn, keep=()):
    """copy of `fn` in which locals bound exactly once to a purely arithmetic expression over names and constants
    (`end = offset + 3 + size`) are replaced by that expression at their uses, provided no operand is rebound between the
    binding and the use other than by the using statement itself.  Lets linear-arithmetic rules see through temporaries."""
    import copy
    counts, defs = {}, {}
    for n in ast.walk(fn):
        if isinstance(n, (ast.Assign, ast.AugAssign)):
            for t in (n.targets if isinstance(n, ast.Assign) else [n.target]):
                for x in ast.walk(t):
                    if isinstance(x, ast.Name):
                        counts[x.id] = counts.get(x.id, 0) + 1
            if isinstance(n, ast.Assign) and len(n.targets) == 1 and isinstance(n.targets[0], ast.Name):
                ok = all(isinstance(x, (ast.BinOp, ast.Name, ast.Constant, ast.Add, ast.Sub, ast.Mult, ast.Load)) for x in ast.walk(n.value)) and isinstance(n.value, ast.BinOp)
                if ok:
                    defs[n.targets[0].id] = n
        elif isinstance(n, (ast.For, ast.comprehension)):
            for x in ast.walk(n.target):
                if isinstance(x, ast.Name):
                    counts[x.id] = counts.get(x.id, 0) + 2
    temps = {name: st for name, st in defs.items() if counts.get(name) == 1 and name not in keep}
    # hazard check: an operand rebound between the definition and a use (by another statement)
    for name, st in list(temps.items()):
        ops = {x.id for x in ast.walk(st.value) if isinstance(x, ast.Name)}
        uses = [x for x in ast.walk(fn) if isinstance(x, ast.Name) and x.id == name and isinstance(x.ctx, ast.Load)]
        last = max([u.lineno for u in uses], default=st.lineno)
        for n in ast.walk(fn):
            if isinstance(n, (ast.Assign, ast.AugAssign)) and st.lineno < n.lineno < last:
                for t in (n.targets if isinstance(n, ast.Assign) else [n.target]):
                    if isinstance(t, ast.Name) and t.id in ops:
                        temps.pop(name, None)
    if not temps:
        return fn
    new = copy.deepcopy(fn)

    class T(ast.NodeTransformer):
        def visit_Name(self, node):
            if node.id in temps and isinstance(node.ctx, ast.Load):
                return ast.copy_location(copy.deepcopy(temps[node.id].value), node)
            return node

        def visit_Assign(self, node):
            if len(node.targets) == 1 and isinstance(node.targets[0], ast.Name) and node.targets[0].id in temps and node.lineno == temps[node.targets[0].id].lineno:
                return ast.copy_location(ast.Pass(), node)
            return self.generic_visit(node)
    new = T().visit(new)
    ast.fix_missing_locations(new)
    return new


def inline_private_calls(repo, cls, fn, depth=2, only=None, _seen=(), helper_transform=None):
    """copy of method `fn` of class `cls` in which calls `self._helper(args)` of *simple* helpers defined in the class
    hierarchy are replaced by the helper's body (extract-method refactorings undone before a CFG / term rule looks):
      - statement `self._h(a)`            -> `p = a` ... body (a trailing bare `return` dropped)
      - `x = self._h(a)` / `return self._h(a)` with the helper ending in its only `return e` -> body, then `x = e` / `return e`
      - a helper that is a single `return e` is substituted inside any expression
    Helpers with early returns, yields, nested defs, *args/**kwargs, or recursion are left as calls.  Parameters and the
    helper's locals are renamed with a unique prefix.  `only`: optional predicate on the helper name."""
    import copy
    import itertools
    counter = itertools.count(1)

    def helper_of(call):
        if not (isinstance(call, ast.Call) and isinstance(call.func, ast.Attribute) and isinstance(call.func.value, ast.Name) and call.func.value.id in ("self", "cls", cls.name)):
            return None
        name = call.func.attr
        if call.func.value.id != "self":
            # Class._helper(...) / cls._helper(...): only static helpers (no receiver to bind)
            k0, h0 = repo.find_method(cls, name)
            if h0 is None or not any(isinstance(d, ast.Name) and d.id in ("staticmethod", "classmethod") for d in h0.decorator_list):
                return None
        if not name.startswith("_") or name.startswith("__") or name in _seen or (only is not None and not only(name)):
            return None
        k, h = repo.find_method(cls, name)
        if h is None or h is fn:
            return None
        if helper_transform is not None:
            h = helper_transform(h)
        a = h.args
        if a.kwarg or a.kwonlyargs or any(isinstance(d, ast.Name) and d.id == "property" for d in h.decorator_list):
            return None
        if a.vararg and any(isinstance(x, ast.Name) and x.id == a.vararg.arg and isinstance(x.ctx, ast.Store) for st in h.body for x in ast.walk(st)):
            return None      # the helper rebinds its *args
        if any(isinstance(x, (ast.Yield, ast.YieldFrom, ast.FunctionDef, ast.Lambda, ast.Global, ast.Nonlocal)) for st in h.body for x in ast.walk(st)):
            return None
        rets = [x for st in h.body for x in ast.walk(st) if isinstance(x, ast.Return)]
        body = [st for st in h.body if not (isinstance(st, ast.Expr) and isinstance(st.value, ast.Constant))]
        if not body:
            return None
        last = body[-1]
        if any(r is not last for r in rets):
            return None      # early returns
        return h, body

    def bind(h, call, prefix):
        """-> (prelude assignments, rename map) or None"""
        static = any(isinstance(d, ast.Name) and d.id == "staticmethod" for d in h.decorator_list)
        clsm = any(isinstance(d, ast.Name) and d.id == "classmethod" for d in h.decorator_list)
        params = [p.arg for p in h.args.args]
        recv_param = None
        if not static:
            recv_param = params[0] if params else None
            params = params[1:]
        defaults = dict(zip(params[len(params) - len(h.args.defaults):], h.args.defaults))
        plain = list(call.args)
        star = None
        if h.args.vararg is not None:
            # *args: the positional arguments beyond the named parameters, as a tuple; a single `*rest` passed on stands
            # for itself
            if any(isinstance(x, ast.Starred) for x in plain[:len(params)]):
                return None
            extra = plain[len(params):]
            plain = plain[:len(params)]
            if len(extra) == 1 and isinstance(extra[0], ast.Starred):
                star = ast.Call(func=ast.Name(id="tuple", ctx=ast.Load()), args=[copy.deepcopy(extra[0].value)], keywords=[])
            elif any(isinstance(x, ast.Starred) for x in extra):
                return None
            else:
                star = ast.Tuple(elts=[copy.deepcopy(x) for x in extra], ctx=ast.Load())
        elif any(isinstance(x, ast.Starred) for x in plain):
            return None
        given = dict(zip(params, plain))
        if len(plain) > len(params):
            return None
        for kw in call.keywords:
            if kw.arg is None or kw.arg not in params or kw.arg in given:
                return None
            given[kw.arg] = kw.value
        locs = {t.id for st in h.body for x in ast.walk(st) if isinstance(x, (ast.Assign, ast.AugAssign, ast.For, ast.With, ast.ExceptHandler, ast.comprehension))
                for t in ast.walk(x) if isinstance(t, ast.Name) and isinstance(t.ctx, ast.Store)}
        locs |= {x.name for st in h.body for x in ast.walk(st) if isinstance(x, ast.ExceptHandler) and x.name}
        ren = {n: prefix + n for n in set(params) | locs}
        if recv_param is not None and recv_param not in locs:
            # the receiver: `self` stays `self`; the `cls` of a classmethod reached through self / the class name becomes that
            rv = call.func.value
            if recv_param != (rv.id if isinstance(rv, ast.Name) else None):
                ren[recv_param] = copy.deepcopy(rv)
        pre = []
        for p_ in params:
            v = given.get(p_, defaults.get(p_))
            if v is None:
                return None
            if isinstance(v, (ast.Name, ast.Constant)) and p_ not in locs:
                # a plain name / constant passed for a parameter the helper never rebinds: used as it is (no alias), so
                # that rules which follow a variable see the same variable inside the inlined body
                ren[p_] = copy.deepcopy(v)
                continue
            pre.append(ast.Assign(targets=[ast.Name(id=ren[p_], ctx=ast.Store())], value=copy.deepcopy(v)))
        if star is not None:
            ren[h.args.vararg.arg] = star
        return pre, ren

    class Ren(ast.NodeTransformer):
        def __init__(self, ren):
            self.ren = ren

        def visit_Name(self, node):
            if node.id in self.ren:
                r_ = self.ren[node.id]
                if isinstance(r_, ast.AST):
                    return ast.copy_location(copy.deepcopy(r_), node)
                return ast.copy_location(ast.Name(id=r_, ctx=node.ctx), node)
            return node

        def visit_ExceptHandler(self, node):
            self.generic_visit(node)
            if node.name in self.ren and isinstance(self.ren[node.name], str):
                node.name = self.ren[node.name]
            return node

    def expand(call, at):
        """-> (statements to run first, expression that stands for the call's value or None)"""
        hb = helper_of(call)
        if hb is None:
            return None
        h, body = hb
        prefix = "_inl%d_" % next(counter)
        b = bind(h, call, prefix)
        if b is None:
            return None
        pre, ren = b
        stmts = [Ren(ren).visit(copy.deepcopy(st)) for st in body]
        value = None
        if isinstance(stmts[-1], ast.Return):
            value = stmts[-1].value
            stmts = stmts[:-1]
        out = pre + stmts
        for st in out:
            ast.copy_location(st, at)
            for x in ast.walk(st):
                if not hasattr(x, "lineno") or True:
                    try:
                        ast.copy_location(x, at) if not hasattr(x, "lineno") else None
                    except Exception:
                        pass
        return out, value

    changed = [False]

    def do_block(stmts):
        out = []
        for st in stmts:
            for fld in ("body", "orelse", "finalbody"):
                blk = getattr(st, fld, None)
                if isinstance(blk, list) and blk and isinstance(blk[0], ast.stmt):
                    setattr(st, fld, do_block(blk))
            if isinstance(st, ast.Try):
                for hnd in st.handlers:
                    hnd.body = do_block(hnd.body)
            tgt_call = None
            if isinstance(st, ast.Expr) and isinstance(st.value, ast.Call):
                tgt_call = ("expr", st.value)
            elif isinstance(st, ast.Assign) and isinstance(st.value, ast.Call):
                tgt_call = ("assign", st.value)
            elif isinstance(st, ast.Return) and isinstance(st.value, ast.Call):
                tgt_call = ("return", st.value)
            if tgt_call is not None:
                r = expand(tgt_call[1], st)
                if r is not None:
                    pre, value = r
                    changed[0] = True
                    out += pre
                    if tgt_call[0] == "assign":
                        out.append(ast.copy_location(ast.Assign(targets=st.targets, value=value if value is not None else ast.Constant(value=None)), st))
                    elif tgt_call[0] == "return":
                        out.append(ast.copy_location(ast.Return(value=value), st))
                    elif value is not None and any(isinstance(x, ast.Call) for x in ast.walk(value)):
                        out.append(ast.copy_location(ast.Expr(value=value), st))
                    continue
            # a multi-statement helper called inside the expression of a simple statement / an `if` test: hoisted in front
            # of the statement when nothing of the statement is evaluated before the call (no earlier call, no
            # conditional evaluation around it)
            hoisted = False
            if isinstance(st, (ast.If, ast.Assign, ast.Return, ast.Expr, ast.AugAssign, ast.For)):
                # (the iterable of a `for` statement is evaluated once, before the loop)
                roots = [st.test] if isinstance(st, ast.If) else [st.iter] if isinstance(st, ast.For) else [getattr(st, "value", None)]
                roots = [r_ for r_ in roots if r_ is not None]
                for root in roots:
                    parents = {}
                    for p_ in ast.walk(root):
                        for ch in ast.iter_child_nodes(p_):
                            parents[id(ch)] = p_
                    for cand in [x for x in ast.walk(root) if isinstance(x, ast.Call) and helper_of(x) is not None]:
                        h, body = helper_of(cand)
                        if len(body) == 1:
                            continue             # single-expression helper: substituted below
                        anc, cur = [], cand
                        while id(cur) in parents:
                            cur = parents[id(cur)]
                            anc.append(cur)
                        def in_first_iter(comp):
                            # the iterable of a comprehension's first `for` is evaluated once, before anything else of it
                            return any(x is cand for x in ast.walk(comp.generators[0].iter))
                        if any(isinstance(a_, (ast.BoolOp, ast.IfExp, ast.Lambda)) for a_ in anc) or \
                                any(isinstance(a_, (ast.ListComp, ast.SetComp, ast.DictComp, ast.GeneratorExp)) and not in_first_iter(a_) for a_ in anc):
                            continue
                        pos = (cand.lineno, cand.col_offset)
                        earlier = [x for x in ast.walk(root) if isinstance(x, ast.Call) and x is not cand and x not in anc
                                   and (x.end_lineno, x.end_col_offset) <= pos]
                        if earlier:
                            continue
                        r = expand(cand, st)
                        if r is None or r[1] is None:
                            continue
                        pre, value = r
                        tmp = "_inl%d_ret" % next(counter)
                        out += pre
                        out.append(ast.copy_location(ast.Assign(targets=[ast.Name(id=tmp, ctx=ast.Store())], value=value), st))

                        class Rep(ast.NodeTransformer):
                            def visit_Call(self, node):
                                if node is cand:
                                    return ast.copy_location(ast.Name(id=tmp, ctx=ast.Load()), node)
                                return self.generic_visit(node)
                        if isinstance(st, ast.If):
                            st.test = Rep().visit(st.test)
                        elif isinstance(st, ast.For):
                            st.iter = Rep().visit(st.iter)
                        else:
                            st.value = Rep().visit(st.value)
                        changed[0] = True
                        hoisted = True
                        break
                    if hoisted:
                        break
            # single-expression helpers inside larger expressions
            class Sub(ast.NodeTransformer):
                def visit_Call(self, node):
                    self.generic_visit(node)
                    hb = helper_of(node)
                    if hb is None:
                        return node
                    h, body = hb
                    if len(body) != 1 or not isinstance(body[0], ast.Return) or body[0].value is None:
                        return node
                    b = bind(h, node, "_inl%d_" % next(counter))
                    if b is None:
                        return node
                    pre, ren = b
                    # substitute parameters by the argument expressions directly
                    amap = {t.targets[0].id: t.value for t in pre}

                    class Arg(ast.NodeTransformer):
                        def visit_Name(self, n):
                            key = ren.get(n.id)
                            if isinstance(key, ast.AST) and isinstance(n.ctx, ast.Load):
                                return copy.deepcopy(key)
                            if isinstance(key, str) and key in amap and isinstance(n.ctx, ast.Load):
                                return copy.deepcopy(amap[key])
                            return n
                    changed[0] = True
                    return ast.copy_location(Arg().visit(copy.deepcopy(body[0].value)), node)
            st = Sub().visit(st)
            out.append(st)
        return out
    new = copy.deepcopy(fn)
    new.body = do_block(new.body)
    ast.fix_missing_locations(new)
    if not changed[0]:
        return fn
    if depth > 1:
        return inline_private_calls(repo, cls, new, depth - 1, only, _seen + (fn.name,), helper_transform)
    return new


def unroll_static_loops(fn):
    """copy of `fn` in which a `for` whose iterable is known statement by statement is replaced by its iterations:
      - a list / tuple display                         `for q, p in [(A, x), (B, y)]: body`
      - a call of a local generator function whose body is a straight line of simple statements and `yield e`
        statements (no parameters)                     `def g(): yield A, x; s = f(); yield B, s` ... `for q, p in g(): body`
      - a local name bound exactly once to one of the two and used only by the loop
    The loop variables are substituted by the element expressions (an element that is not a display of matching shape is
    assigned to the target first).  Loops with break / continue / else, or whose body rebinds a loop variable, are left.
    Statements of the generator between its yields are hoisted in order, its locals renamed.  Nothing else is touched."""
    import copy
    import itertools
    fn = copy.deepcopy(fn)
    counter = itertools.count(1)
    gens = {}
    for st in ast.walk(fn):
        if isinstance(st, ast.FunctionDef) and st is not fn and not st.args.args and not st.args.vararg and not st.args.kwarg and not st.args.kwonlyargs and not st.decorator_list:
            body = [x for x in st.body if not (isinstance(x, ast.Expr) and isinstance(x.value, ast.Constant))]
            ok = bool(body)
            n_y = 0
            for x in body:
                if isinstance(x, ast.Expr) and isinstance(x.value, ast.Yield) and x.value.value is not None:
                    n_y += 1
                    if any(isinstance(y, (ast.Yield, ast.YieldFrom)) for y in ast.walk(x.value.value)):
                        ok = False
                elif isinstance(x, (ast.Assign, ast.Expr)) and not any(isinstance(y, (ast.Yield, ast.YieldFrom, ast.Lambda, ast.FunctionDef)) for y in ast.walk(x)):
                    pass
                else:
                    ok = False
            if ok and n_y:
                gens[st.name] = body
    stores = {}
    loads = {}
    for x in ast.walk(fn):
        if isinstance(x, ast.Name):
            (stores if isinstance(x.ctx, ast.Store) else loads).setdefault(x.id, []).append(x)

    def sequence_of(it, loop):
        """-> (list of ('stmt', s) / ('elem', e)) or None"""
        if isinstance(it, (ast.List, ast.Tuple)) and not any(isinstance(e, ast.Starred) for e in it.elts):
            return [("elem", e) for e in it.elts]
        if isinstance(it, ast.Call) and isinstance(it.func, ast.Name) and it.func.id in gens and not it.args and not it.keywords:
            n = next(counter)
            body = copy.deepcopy(gens[it.func.id])
            local = {t.id for s in body for t in ast.walk(s) if isinstance(t, ast.Name) and isinstance(t.ctx, ast.Store)}

            class R(ast.NodeTransformer):
                def visit_Name(self, nd):
                    if nd.id in local:
                        return ast.copy_location(ast.Name(id="_gen%d_%s" % (n, nd.id), ctx=nd.ctx), nd)
                    return nd
            out = []
            for s in body:
                s = R().visit(s)
                if isinstance(s, ast.Expr) and isinstance(s.value, ast.Yield):
                    out.append(("elem", s.value.value))
                else:
                    out.append(("stmt", s))
            return out
        if isinstance(it, ast.Name) and len(stores.get(it.id, [])) == 1 and len(loads.get(it.id, [])) == 1:
            for a in ast.walk(fn):
                if isinstance(a, ast.Assign) and len(a.targets) == 1 and isinstance(a.targets[0], ast.Name) and a.targets[0].id == it.id:
                    seq = sequence_of(a.value, loop)
                    if seq is not None:
                        dead.append(a)
                    return seq
        return None

    def subst(body, mapping):
        class S(ast.NodeTransformer):
            def visit_Name(self, nd):
                if nd.id in mapping and isinstance(nd.ctx, ast.Load):
                    return ast.copy_location(copy.deepcopy(mapping[nd.id]), nd)
                return nd
        return [S().visit(copy.deepcopy(s)) for s in body]
    dead = []

    class U(ast.NodeTransformer):
        def visit_For(self, node):
            self.generic_visit(node)
            if node.orelse or any(isinstance(x, (ast.Break, ast.Continue)) for s in node.body for x in ast.walk(s)):
                return node
            tnames = [t.id for t in ast.walk(node.target) if isinstance(t, ast.Name)]
            if not all(isinstance(t, (ast.Name, ast.Tuple, ast.List)) for t in ast.walk(node.target) if not isinstance(t, ast.expr_context)):
                return node
            if any(isinstance(x, ast.Name) and isinstance(x.ctx, ast.Store) and x.id in tnames for s in node.body for x in ast.walk(s)):
                return node
            seq = sequence_of(node.iter, node)
            if seq is None or sum(1 for k_, _x in seq if k_ == "elem") > 16:
                return node
            out = []
            for kind, x in seq:
                if kind == "stmt":
                    out.append(x)
                    continue
                if isinstance(node.target, ast.Name):
                    out += subst(node.body, {node.target.id: x})
                elif isinstance(x, (ast.Tuple, ast.List)) and len(x.elts) == len(node.target.elts) and all(isinstance(t, ast.Name) for t in node.target.elts):
                    out += subst(node.body, {t.id: e for t, e in zip(node.target.elts, x.elts)})
                else:
                    out.append(ast.copy_location(ast.Assign(targets=[copy.deepcopy(node.target)], value=copy.deepcopy(x)), node))
                    out += [copy.deepcopy(s) for s in node.body]
            return [ast.copy_location(s, node) if not hasattr(s, "lineno") else s for s in out] or [ast.copy_location(ast.Pass(), node)]
    new = U().visit(fn)
    if dead:
        class D(ast.NodeTransformer):
            def visit_Assign(self, node):
                return None if any(node is d for d in dead) else node
        new = D().visit(new)
        for parent in ast.walk(new):
            for fld in ("body", "orelse", "finalbody"):
                if isinstance(getattr(parent, fld, None), list) and not getattr(parent, fld) and fld == "body":
                    parent.body = [ast.Pass()]
    ast.fix_missing_locations(new)
    return new
