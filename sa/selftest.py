"""Both-ways self-test of the rules (thorough tier).

A *variant* is a small edit of the current tree (applied in memory through Repo's overlay;
nothing is written to disk).  `expect` names the rule that must report a NEW violation on
the variant (must-fire), or is None for behaviour-preserving edits on which no rule of the
property may report anything new (must-stay-silent).  Variants whose anchor text is not in
the tree under test are counted as skipped.  A failing self-test is an ANALYSIS-ERROR
(exit 2): it says the checker is broken, not the repository.
"""
import importlib
import multiprocessing
import os

from . import report
from .repo import REPO


def _load_variants(prop):
    try:
        mod = importlib.import_module("selftest.variants." + prop.lower())
    except ImportError:
        return []
    return list(mod.V)


def _apply_patch(variant, root):
    """a seeded change (unified diff) applied to copies of the files it touches -> overlay"""
    import re
    import shutil
    import subprocess
    import tempfile
    pfile = os.path.join(report.VERIF, variant["patch"])
    try:
        text = open(pfile).read()
    except OSError:
        return None, "patch file missing"
    rels = sorted(set(re.findall(r"^\+\+\+ b/(\S+)", text, flags=re.M)))
    tmp = tempfile.mkdtemp(prefix="vst-", dir="/dev/shm" if os.path.isdir("/dev/shm") else None)
    try:
        for rel in rels:
            dst = os.path.join(tmp, rel)
            os.makedirs(os.path.dirname(dst), exist_ok=True)
            src = os.path.join(root, rel)
            if os.path.exists(src):
                shutil.copy(src, dst)
        r = subprocess.run(["patch", "-p1", "-s", "-f", "-d", tmp, "-i", pfile], stdout=subprocess.PIPE, stderr=subprocess.STDOUT, text=True)
        if r.returncode != 0:
            return None, "patch does not apply to the tree under test"
        overlay = {}
        for rel in rels:
            with open(os.path.join(tmp, rel), encoding="utf-8", errors="replace") as fh:
                overlay[rel] = fh.read()
            try:
                compile(overlay[rel], rel, "exec")
            except SyntaxError as e:
                return None, "variant does not compile: %s" % e
        return overlay, None
    finally:
        shutil.rmtree(tmp, ignore_errors=True)


def seeded_variants(prop):
    """the kept seeded changes of this property that its check reports, as must-fire variants (the rules recorded in their
    meta.json): the thorough tier re-establishes the catch matrix of DESIGN.md section 6 on every run"""
    import json
    base = os.path.join(report.VERIF, "seeded")
    out = []
    if not os.path.isdir(base):
        return out
    for sid in sorted(os.listdir(base)):
        mp = os.path.join(base, sid, "meta.json")
        if not os.path.exists(mp):
            continue
        try:
            meta = json.load(open(mp))
        except ValueError:
            continue
        if meta.get("property") != prop:
            continue
        f = (meta.get("checks") or {}).get("fired", {}).get(prop)
        if not f or f.get("exit") != 1 or not f.get("rules"):
            continue
        out.append({"id": "seeded-" + sid, "patch": os.path.join("seeded", sid, "patch.diff"), "expect": list(f["rules"])})
    return out


def seeded_neutral_variants(prop):
    """kept behaviour-preserving refactorings (sub-agent round 4) of this property's code: must stay silent"""
    import json
    base = os.path.join(report.VERIF, "seeded_neutral")
    out = []
    if not os.path.isdir(base):
        return out
    for sid in sorted(os.listdir(base)):
        mp = os.path.join(base, sid, "meta.json")
        if not os.path.exists(mp):
            continue
        try:
            meta = json.load(open(mp))
        except ValueError:
            continue
        if meta.get("property") != prop or meta.get("excluded"):
            continue
        # "accept_undecided": rules that may honestly answer UNDECIDED on this rewrite (a documented limit of the analysis,
        # DESIGN.md section 6); a VIOLATION on a behaviour-preserving change is never accepted
        out.append({"id": "neutral-" + sid, "patch": os.path.join("seeded_neutral", sid, "patch.diff"), "expect": None,
                    "accept_undecided": meta.get("accept_undecided", [])})
    return out


def _apply(variant, root):
    if "patch" in variant:
        return _apply_patch(variant, root)
    edits = variant.get("edits") or [(variant["file"], variant["old"], variant["new"])]
    overlay = {}
    for ed in edits:
        rel, old, new = ed[:3]
        want = ed[3] if len(ed) > 3 else variant.get("count", 1)
        p = os.path.join(root, rel)
        if rel in overlay:
            src = overlay[rel]
        else:
            try:
                with open(p, encoding="utf-8", errors="replace") as fh:
                    src = fh.read()
            except OSError:
                return None, "file missing"
        if src.count(old) != want:
            return None, "anchor text not found exactly %d time(s) in %s" % (want, rel)
        src = src.replace(old, new)
        try:
            compile(src, rel, "exec")
        except SyntaxError as e:
            return None, "variant does not compile: %s" % e
        overlay[rel] = src
    return overlay, None


def _keys(ctx, verdict):
    return {i.key() for i in ctx.instances if i.verdict == verdict}


def _one(args):
    prop, variant, root, base_v, base_u = args
    from .runner import analyse
    overlay, why = _apply(variant, root)
    if overlay is None:
        return variant["id"], "skipped", why
    try:
        ctx = analyse(prop, "quick", root, overlay=overlay)
    except Exception as e:  # analyser crash on a variant = self-test failure
        return variant["id"], "failed", "analyser crashed: %s: %s" % (type(e).__name__, e)
    v = _keys(ctx, report.VIOLATION) - base_v
    u = _keys(ctx, report.UNDECIDED) - base_u
    exp = variant.get("expect")
    if exp is None:
        u = {k for k in u if k[0] not in variant.get("accept_undecided", ())}
        if v or u:
            k = sorted(v | u)[0]
            return variant["id"], "failed", "neutral edit raised %s at %s :: %s" % (k[0], k[2], k[3])
        return variant["id"], "silent", ""
    exps = exp if isinstance(exp, (list, tuple)) else [exp]
    fired = sorted({k[0] for k in v})
    if any(e in fired for e in exps):
        return variant["id"], "fired", ",".join(fired)
    if variant.get("undecided_ok") and any(k[0] in exps for k in u):
        return variant["id"], "fired", "UNDECIDED " + ",".join(sorted({k[0] for k in u}))
    return variant["id"], "failed", "expected %s to fire, got violations=%s undecided=%s" % (exps, fired, sorted({k[0] for k in u}))


def run(prop, root=None, jobs=None):
    from .runner import analyse
    root = root or REPO
    variants = _load_variants(prop) + seeded_variants(prop) + seeded_neutral_variants(prop)
    base = analyse(prop, "quick", root)
    base_v, base_u = _keys(base, report.VIOLATION), _keys(base, report.UNDECIDED)
    jobs = jobs or min(16, os.cpu_count() or 1)
    work = [(prop, v, root, base_v, base_u) for v in variants]
    if not work:
        return {"variants": 0, "fired": 0, "silent": 0, "skipped": 0, "failed": []}
    if jobs > 1 and len(work) > 1:
        with multiprocessing.get_context("fork").Pool(min(jobs, len(work))) as pool:
            res = pool.map(_one, work)
    else:
        res = [_one(w) for w in work]
    out = {"variants": len(res), "fired": 0, "silent": 0, "skipped": 0, "failed": [], "detail": {}}
    for vid, status, info in res:
        if status == "failed":
            out["failed"].append("%s: %s" % (vid, info))
        else:
            out[status] += 1
        out["detail"][vid] = status + (": " + info if info else "")
    return out
