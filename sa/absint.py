"""Abstract interpreter for the Python subset used by layers and protocol entities.

Evaluation is *deterministic under a cell*: every decision that depends on an input (an attribute
of the symbolic stanza, the presence of a child, an undecidable expression) asks the cell for
the value of an *atom*; if the cell does not define it, NeedAtom is raised and the driver
(`enumerate_cells`) splits the cell over the atom's domain and re-runs.  Because the guards in
this repository are equality / membership / presence tests, each handler is constant on each
cell, and the cells cover the whole input space.

Atoms:  ('A', path, key)  attribute `key` of the input node at `path`   domain: constants compared
                                                                         with it + None + OTHER
        ('C', path, tag)  a child `tag` exists at `path`                 {True, False}
        ('F', text)       truth of an expression the interpreter cannot decide   {True, False}
        ('E', name)       open field of the entity under analysis        like 'A'

Values (tuples):
  ('c', v) constant | ('atom', atom) lazily resolved input | ('node', Node) | ('obj', Obj) | ('cls', ClassInfo)
  ('list', [..]) | ('dict', {k: v}) | ('closure', fn, env, owner_cls, self_val) | ('fn', label, [deps]) opaque
  result carrying its dependencies | ('ext', label, [deps]) opaque external object | ('unset', name) | ('unk', why)
Effects (in order, loop-nested): ('UP', v) ('DOWN', v) ('REG', entity, ok_cb, err_cb) ('EMIT', ev) ('BCAST', ev)
  ('RAISE', text) ('LOOP', [effects]) ('CALL', label, args) ('SETPROP', k, v)
"""
import ast

from .consts import Evaluator, alts as const_alts
from .repo import unparse as _unparse, func_is_static, func_is_classmethod


def unparse(n):
    """memoised on the node: the interpreter asks for the text of the same tests over and over (the trees it
    walks are never mutated)"""
    try:
        return n._txt
    except AttributeError:
        t = _unparse(n)
        try:
            n._txt = t
        except Exception:
            pass
        return t

OTHER = "<other>"
MAX_DEPTH = 40
MAX_STEPS = 20000


class NeedAtom(Exception):
    def __init__(self, atom):
        Exception.__init__(self, repr(atom))
        self.atom = atom


class DomainGrew(Exception):
    pass


class _Return(Exception):
    def __init__(self, v):
        self.v = v


class _Raise(Exception):
    def __init__(self, exc, text=""):
        self.exc = exc
        self.text = text


class _Break(Exception):
    pass


class _Continue(Exception):
    pass


class Budget(Exception):
    pass


class Node:
    """abstract ProtocolTreeNode"""
    _n = 0

    def __init__(self, tag=None, path=None):
        self.tag = tag                # value
        self.attrs = {}               # key(str) -> value   (explicitly set)
        self.removed = set()
        self.children = []            # [('one'|'many', Node)]
        self.data = ("c", None)
        self.path = path              # tuple if symbolic input else None
        self.sym_children = {}        # tag -> Node for symbolic getChild
        self.attrs_open = []          # values merged into attributes wholesale (dict objects)
        Node._n += 1
        self.id = Node._n

    @property
    def symbolic(self):
        return self.path is not None

    def __repr__(self):
        return "<Node %s %s>" % (self.tag, "/".join(self.path) if self.path is not None else "#%d" % self.id)


class ClosureEnv:
    """the environment a closure was created in (live: later rebinding of an enclosing local is seen, as in Python) plus the
    values its parameter defaults had at creation (`lambda k, v, name=name: ...` inside a loop keeps THAT name)"""

    def __init__(self, parent, extra):
        self.parent, self.extra = parent, extra

    def items(self):
        for kv in self.parent.items():
            yield kv
        for kv in self.extra.items():
            yield kv

    def get(self, k, d=None):
        if k in self.extra:
            return self.extra[k]
        return self.parent.get(k, d)

    def __contains__(self, k):
        return k in self.extra or k in self.parent

    def __getitem__(self, k):
        return self.extra[k] if k in self.extra else self.parent[k]


class Obj:
    _n = 0

    def __init__(self, cls):
        self.cls = cls
        self.fields = {}
        Obj._n += 1
        self.id = Obj._n

    def __repr__(self):
        return "<Obj %s #%d>" % (self.cls.name if self.cls is not None else "?", self.id)


class _GenClose(BaseException):
    """thrown into a suspended generator body when its consumer abandons it (Python's GeneratorExit)"""


class Gen:
    """a generator object of the analysed program: the body of the generator function runs lazily, interleaved with its
    consumer exactly as in Python (a second thread of control that only ever runs while the consumer waits in next()):
    effects of the body and of the consumer's loop body appear in program order, and what the body has not yet done when
    the consumer raises or breaks is not done."""
    MAX_ITEMS = 512
    _live = []

    @classmethod
    def close_abandoned(cls):
        """generators left suspended by a finished (or aborted) run are unwound so that their threads end"""
        live, cls._live = cls._live, []
        for g in live:
            try:
                g.close()
            except BaseException:       # noqa: whatever an abandoned body raises while unwinding is of no interest
                pass

    def __init__(self, interp, fn, env, depth):
        import threading
        Gen._live.append(self)
        self.interp, self.fn, self.env, self.depth = interp, fn, env, depth
        self.state = "new"
        self._resume = threading.Semaphore(0)
        self._yielded = threading.Semaphore(0)
        self._out = None
        self._closing = False
        self._thread = None
        self._dyn = None            # dynamic interpreter state of the body while it is suspended
        env["@gen"] = self

    def _swap_dyn(self):
        it = self.interp
        cur = (it.pure_depth, getattr(it.sym, "current_fn", None) if it.sym is not None else None)
        if self._dyn is not None:
            it.pure_depth = self._dyn[0]
            if it.sym is not None:
                it.sym.current_fn = self._dyn[1]
        self._dyn = cur

    def _main(self):
        self._resume.acquire()
        if self._closing:
            self._out = ("closed",)
        else:
            try:
                self.interp.block(self.fn.body, self.env, self.depth + 1)
                self._out = ("stop", C_NONE)
            except _Return as r:
                self._out = ("stop", r.v)
            except _GenClose:
                self._out = ("closed",)
            except BaseException as x:      # noqa: control-flow exceptions of the interpreter travel to the consumer
                self._out = ("exc", x)
        self.state = "done"
        self._yielded.release()

    def step(self):
        """-> ('yield', value) | ('stop', return value); re-raises what the body raised"""
        if self.state == "done":
            return ("stop", C_NONE)
        if self.state == "running":
            raise _Raise(("ext", "ValueError", []), "ValueError: generator already executing")
        if self._thread is None:
            import threading
            threading.stack_size(128 * 1024 * 1024)
            self._thread = threading.Thread(target=self._main, daemon=True)
            self._thread.start()
            if self.interp.sym is not None:
                self._dyn = (self.interp.pure_depth, getattr(self.fn, "name", None))
        self.state = "running"
        self._swap_dyn()
        self._resume.release()
        self._yielded.acquire()
        self._swap_dyn()
        out = self._out
        if self.state != "done":
            self.state = "suspended"
        if out[0] == "exc":
            raise out[1]
        if out[0] == "closed":
            return ("stop", C_NONE)
        return out

    def suspend(self, value):
        """called from the body at a yield -> the value sent in (None)"""
        self._out = ("yield", value)
        self._yielded.release()
        self._resume.acquire()
        if self._closing:
            raise _GenClose()
        return C_NONE

    def close(self):
        if self.state == "done" or self._thread is None:
            self.state = "done"
            return
        if self.state == "suspended":
            self._closing = True
            self.state = "running"
            self._swap_dyn()
            self._resume.release()
            self._yielded.acquire()
            self._swap_dyn()
            self.state = "done"
            if self._out and self._out[0] == "exc" and not isinstance(self._out[1], _GenClose):
                raise self._out[1]


def is_generator_function(fn):
    if isinstance(fn, ast.Lambda):
        return False
    cached = getattr(fn, "_is_gen", None)
    if cached is None:
        def has_yield(n):
            for c in ast.iter_child_nodes(n):
                if isinstance(c, (ast.Yield, ast.YieldFrom)):
                    return True
                if isinstance(c, (ast.FunctionDef, ast.AsyncFunctionDef, ast.Lambda, ast.ClassDef)):
                    continue
                if has_yield(c):
                    return True
            return False
        cached = any(has_yield(st) or isinstance(st, (ast.Yield, ast.YieldFrom)) for st in fn.body)
        try:
            fn._is_gen = cached
        except Exception:
            pass
    return cached


C_NONE = ("c", None)
C_TRUE = ("c", True)
C_FALSE = ("c", False)

MUTATORS = {"append", "extend", "insert", "pop", "remove", "clear", "update", "add", "discard", "setdefault", "popitem", "sort", "reverse",
            "__setitem__", "__delitem__", "appendleft", "popleft", "extendleft", "rotate"}

NODE_API = {"getAttributeValue", "__getitem__", "__setitem__", "setAttribute", "getChild", "getAllChildren", "addChild", "addChildren",
            "getData", "setData", "hasChildren", "removeAttribute", "__delitem__", "tagEquals", "require", "__str__", "__eq__", "__hash__"}


def deps_of(v, out=None):
    """set of atoms / constants a value depends on (for provenance)"""
    if out is None:
        out = set()
    if not isinstance(v, tuple) or not v:
        return out
    k = v[0]
    if k == "atom":
        out.add(v[1])
    elif k == "c":
        out.add(("const", repr(v[1])))
    elif k in ("fn", "ext"):
        for d in v[2]:
            deps_of(d, out)
    elif k == "list":
        for d in v[1]:
            deps_of(d, out)
    elif k == "dict":
        for d in v[1].values():
            deps_of(d, out)
    elif k == "obj":
        out.add(("obj", v[1].cls.name if v[1].cls else "?"))
        for d in v[1].fields.values():
            if not (isinstance(d, tuple) and d and d[0] == "obj"):
                deps_of(d, out)
    elif k == "node":
        out.add(("node", v[1].id))
    elif k == "unset":
        out.add(("unset", v[1]))
    elif k == "unk":
        out.add(("unk", v[1] if len(v) > 1 else ""))
    return out


class Interp:
    def __init__(self, repo, cell=None, domains=None, mode="route", hooks=None):
        self.repo = repo
        self.cell = cell if cell is not None else {}
        self.domains = domains if domains is not None else {}
        self.mode = mode
        self.effects = []
        self._eff_stack = [self.effects]
        self.steps = 0
        self.api_misuse = []          # (node_ast, text)
        self.notes = []
        self._gens = []
        self._memo = {}
        self.hooks = hooks or {}
        self.asked = []               # atoms consulted in this run (order)
        self.fcount = {}
        self.layer_self = None
        self.class_attrs = {}         # (class qname, attr) -> value stored at run time
        self.defaulted = set()
        self.value_only_default = "present"
        self.pure_depth = 0           # >0 while executing code of non-layer classes (entities, attributes, converter)
        self.layer_base = None
        self.sym = None               # optional sa.symbuf.SymExt: symbolic byte buffers / linear integers
        self.loop_unroll = 1          # while loops: number of iterations executed (1 = one generic iteration)
        self.maybe_falsy = None       # predicate on opaque values whose truthiness is not known (scenario scalars)
        self.honest_numeric = False   # int(x) / float(x) of an input value used as a test: the value zero is explored as well
        self.zero_tests = {}          # key of such a test -> the value tested
        self.on_write = None          # optional write barrier: on_write(kind, target value, detail, ast node, value written) for every store
                                      # into an object field / element and every mutating call on a container
        self.max_steps = MAX_STEPS
        self.models = {}              # Obj.id -> model object answering get / set / call / apply for a stand-in object

    def model_of(self, v):
        """the model standing behind a stand-in object value (sa/protomodel, sa/bytealg), or None"""
        if isinstance(v, tuple) and v and v[0] == "obj" and self.models and v[1].id in self.models:
            return self.models[v[1].id]
        return None

    # ------------------------------------------------------------------ atoms
    def ask(self, atom):
        if atom in self.cell:
            if atom not in self.asked:
                self.asked.append(atom)
            return self.cell[atom]
        raise NeedAtom(atom)

    def domain(self, atom):
        if atom[0] in ("A", "E"):
            d = self.domains.get(atom, [])
            return list(d) + [None, OTHER]
        return [True, False]

    def note_const(self, atom, k):
        if atom[0] not in ("A", "E"):
            return
        if isinstance(k, (str, int, bool)) or k is None:
            if k is None:
                return
            d = self.domains.setdefault(atom, [])
            if k not in d:
                d.append(k)
                if atom in self.cell:
                    raise DomainGrew()

    def free(self, text):
        if self.pure_depth > 0:
            # undecidable test inside entity / attribute code (no routing effects there): a fixed default,
            # recorded; truthiness defaults to True (optional fields present), comparisons to False
            self.defaulted.add(text)
            return text.startswith(("truth(", "nonempty(", "in("))
        n = self.fcount.get(text, 0)
        self.fcount[text] = n + 1
        key = text if n == 0 else "%s #%d" % (text, n + 1)
        return bool(self.ask(("F", key)))

    # ------------------------------------------------------------------ effects
    def emit(self, *eff):
        self._eff_stack[-1].append(tuple(eff))

    def push_loop(self):
        l = []
        self._eff_stack[-1].append(("LOOP", l))
        self._eff_stack.append(l)

    def pop_loop(self):
        l = self._eff_stack.pop()
        if not l:
            self._eff_stack[-1].pop()

    # ------------------------------------------------------------------ resolving lazy values
    def force(self, v, deref=False):
        """resolve a lazily referenced child of the symbolic input: ('lazychild', Node, tag) -> node / None.
        deref=True: the child is being dereferenced (method call / attribute / index) rather than tested;
        inside entity code an untested dereference means the documented shape requires the child."""
        if v[0] == "lazy":
            return self.force(v[1](self), deref)
        if v[0] == "lazychild":
            n, tag = v[1], v[2]
            if deref and self.pure_depth > 0 and ("C", n.path, tag) not in self.cell:
                present = True
            else:
                present = self.ask(("C", n.path, tag))
            if not present:
                return C_NONE
            if tag not in n.sym_children:
                n.sym_children[tag] = Node(("c", tag), n.path + (tag,))
            return ("node", n.sym_children[tag])
        return v

    def concrete(self, v):
        """('atom', a) -> ('c', value) / ('other', a) using the cell"""
        if v[0] in ("lazychild", "lazy"):
            v = self.force(v)
        if v[0] == "atom":
            a = v[1]
            if self.pure_depth > 0 and a[0] in ("A", "E") and a not in self.cell and not self.domains.get(a):
                # value-only attribute (never compared with a constant) read inside entity code:
                # the documented shape has it; its absence is not explored for routing
                return ("other", a) if self.value_only_default != "absent" else C_NONE
            x = self.ask(v[1])
            if x == OTHER:
                return ("other", v[1])
            return ("c", x)
        return v

    def truth(self, v, text=""):
        v = self.concrete(v)
        k = v[0]
        if k == "obj" and self.models:
            m_ = self.model_of(v)
            if m_ is not None and hasattr(m_, "truth"):
                r_ = m_.truth(self, v)
                if r_ is not None:
                    return r_
        if self.sym is not None and self.sym.is_sym(v):
            t = self.sym.truth(self, v)
            if t is not None:
                return t
        if k == "c":
            return bool(v[1])
        if self.honest_numeric and k == "fn" and v[1] in ("int", "float") and any(isinstance(d, tuple) and d and d[0] == "A" for d in deps_of(v)):
            # a number parsed from the input: zero is a value like any other ("0" is present, and falsy once converted)
            key = "numeric-zero:" + show(v)[:80]
            self.zero_tests[key] = v
            return not self.ask(("F", key))
        if k == "ext" and self.maybe_falsy is not None and self.maybe_falsy(v):
            # a scenario value standing for any value of its type, 0 / '' / b'' included
            return self.free("truth(%s)" % v[1])
        if k == "ext" and v[1].endswith("()") and v[1].rstrip("()").split(".")[-1][:1].islower() and v[1].rstrip("()").split(".")[-1] not in ("object",):
            # what an opaque library FUNCTION returned (os.path.exists(p), d.get(k)): nothing is known about its truth
            # (a Capitalised name is a constructor: an object, truthy)
            return self.free("truth(%s)" % (text or v[1]))
        if k == "obj" and v[1].cls is not None:
            # an object whose class says when it is true: __bool__ (__nonzero__), else __len__
            for mname in ("__bool__", "__nonzero__", "__len__"):
                kk_, m_ = self.repo.find_method(v[1].cls, mname)
                if m_ is None:
                    # `__nonzero__ = __bool__` in the class body
                    for kx in self.repo.mro(v[1].cls):
                        ce_ = kx.consts.get(mname)
                        if isinstance(ce_, ast.Name) and ce_.id in kx.methods:
                            kk_, m_ = kx, kx.methods[ce_.id]
                            break
                if m_ is not None:
                    r_ = self.force(self.call_function(m_, kk_, v, [], {}, depth=1))
                    if r_[0] == "c":
                        return bool(r_[1])
                    return self.truth(r_, text) if mname != "__len__" else self.free("nonempty(%s)" % text)
            return True
        if k in ("other", "node", "obj", "cls", "closure", "bound", "ext", "clsmethod"):
            return True
        if k == "list":
            if v[1] or (len(v) > 2 and v[2]):
                return True if v[1] else self.free("nonempty(%s)" % text)
            return False
        if k == "dict":
            return bool(v[1]) if not (len(v) > 2 and v[2]) else (True if v[1] else self.free("nonempty(%s)" % text))
        return self.free("truth(%s)" % (text or show(v)))

    def equal(self, a, b, text="", identity=False):
        """three cases decided exactly; otherwise a free atom"""
        if self.models:
            m_ = self.model_of(a) or self.model_of(b)
            if m_ is not None and hasattr(m_, "equal"):
                r_ = m_.equal(self, a, b)
                if r_ is not None:
                    return r_
        if a[0] == "atom" and b[0] == "c":
            self.note_const(a[1], b[1])
        if b[0] == "atom" and a[0] == "c":
            self.note_const(b[1], a[1])
        a, b = self.concrete(a), self.concrete(b)
        if a[0] == "other" and b[0] == "other" and a[1] == b[1]:
            return True
        if a[0] == "c" and b[0] == "c":
            return a[1] == b[1] and type(a[1]) is type(b[1]) or (a[1] == b[1] and isinstance(a[1], (int, float)) and isinstance(b[1], (int, float)))
        if (a[0] == "other" and b[0] == "c") or (b[0] == "other" and a[0] == "c"):
            return False
        if a[0] == "cls" and b[0] == "cls":
            return a[1] is b[1]
        if a[0] in ("node", "obj", "ext", "closure", "bound", "cls", "clsmethod") and b[0] == "c":
            return False
        if b[0] in ("node", "obj", "ext", "closure", "bound", "cls", "clsmethod") and a[0] == "c":
            return False
        if a[0] in ("list", "dict", "bufobj", "lin", "byte") and b[0] == "c" and b[1] is None:
            return False
        if b[0] in ("list", "dict", "bufobj", "lin", "byte") and a[0] == "c" and a[1] is None:
            return False
        if a[0] == "node" and b[0] == "node":
            return a[1] is b[1]
        if a[0] == "obj" and not identity and a[1].cls is not None and a[1].id not in self.models and a[1] is not (b[1] if b[0] == "obj" else None):
            # `==` on an object whose class defines __eq__ is that method's answer
            kk_, m_ = self.repo.find_method(a[1].cls, "__eq__")
            if m_ is not None:
                r_ = self.force(self.call_function(m_, kk_, a, [b], {}, depth=1))
                if r_[0] == "c":
                    return bool(r_[1])
                return self.truth(r_, "eq(%s)" % text)
        if a[0] == "obj" and b[0] == "obj":
            return a[1] is b[1]
        # two closed sequences: the same kind, the same length, equal element by element
        def seq_(v_):
            if v_[0] == "list" and not (len(v_) > 2 and v_[2]):
                return ("list", list(v_[1]))
            if v_[0] == "c" and isinstance(v_[1], (list, tuple)):
                return ("list" if isinstance(v_[1], list) else "tuple", [("c", y_) for y_ in v_[1]])
            return None
        def map_(v_):
            if v_[0] == "dict" and not (len(v_) > 2 and v_[2]) and not any(isinstance(k_, tuple) and k_ and k_[0] == "dyn" for k_ in v_[1]):
                return dict(v_[1])
            if v_[0] == "c" and isinstance(v_[1], dict):
                return {k_: ("c", x_) for k_, x_ in v_[1].items()}
            return None
        ma_, mb_ = map_(a), map_(b)
        if ma_ is not None and mb_ is not None and (a[0] == "dict" or b[0] == "dict"):
            # two closed dictionaries: the same keys, equal values
            if set(ma_) != set(mb_):
                return False
            return all(self.equal(self.force(ma_[k_]), self.force(mb_[k_]), "%s[%r]" % (text, k_)) for k_ in ma_)
        sa_, sb_ = seq_(a), seq_(b)
        if sa_ is not None and sb_ is not None and (a[0] == "list" or b[0] == "list"):
            if {sa_[0], sb_[0]} == {"list", "tuple"} and a[0] == "c" and b[0] == "c":
                return False
            if len(sa_[1]) != len(sb_[1]):
                return False
            return all(self.equal(self.force(x_), self.force(y_), "%s[%d]" % (text, i_)) for i_, (x_, y_) in enumerate(zip(sa_[1], sb_[1])))
        if (a[0] == "ext" and a[1].startswith("sentinel #")) or (b[0] == "ext" and b[1].startswith("sentinel #")):
            return a[0] == "ext" and b[0] == "ext" and a[1] == b[1]
        if a[0] == "ext" and b[0] == "ext" and not a[2] and not b[2]:
            return a[1] == b[1]
        if (a[0] == "ext" and not a[2] and b[0] == "cls") or (b[0] == "ext" and not b[2] and a[0] == "cls"):
            return False
        for x_, y_ in ((a, b), (b, a)):
            if y_ == C_NONE and x_[0] == "fn" and x_[1].startswith(".") and x_[1][1:2].islower() and len(x_[2]) == 1 and x_[2][0][0] == "ext" and not x_[2][0][2] \
                    and x_[2][0][1].split(".")[-1].split(" ")[-1][:1].isupper():
                # a lower-case attribute of an imported class (KeyPair.from_bytes): a method, not None
                return False
        if a[0] == "fn" and b[0] == "fn" and a[1].startswith(".") and b[1].startswith(".") and a[2] == b[2] and len(a[2]) == 1 and a[2][0][0] == "ext" and not a[2][0][2]:
            # two attribute reads of the same external class / module: the same name is the same value; two different
            # upper-case names are two different named constants (EVENT_WRITE / EVENT_READ)
            if a[1] == b[1]:
                return True
            if a[1][1:].isupper() and b[1][1:].isupper():
                return False
        return self.free("eq(%s)" % text)

    # ------------------------------------------------------------------ running functions
    def call_function(self, fn, owner, self_val, args, kwargs, env0=None, depth=0, defaults_mod=None):
        """inline a FunctionDef / Lambda.  owner: ClassInfo (for super / name resolution)."""
        if depth > MAX_DEPTH:
            return ("unk", "depth")
        h = self.hooks.get("fn:" + getattr(fn, "name", "<lambda>")) if self.hooks else None
        if h is not None:
            # a rule observes (or replaces) every invocation of a function of this name, however it is reached
            # (method call, unbound call through a dispatch table, alias)
            r = h(self, fn, owner, self_val, list(args), dict(kwargs))
            if r is not None:
                return r
        decs = getattr(fn, "decorator_list", None) or []
        if decs and not getattr(self, "_raw_call", False) and not (env0 or {}).get("@undecorated"):
            mod0 = owner.module if owner is not None else (env0 or {}).get("@module", defaults_mod)
            for d in decs:
                dn = unparse(d)
                if dn.split(".")[-1] == "contextmanager" and not isinstance(d, ast.Call):
                    # a generator-based context manager: nothing runs until the `with` (see with_stmt)
                    genv = {"@owner": owner, "@fname": fn.name, "@module": mod0}
                    ps_ = [x.arg for x in fn.args.args]
                    vals_ = ([self_val] if self_val is not None else []) + list(args)
                    for p_, v_ in zip(ps_, vals_):
                        genv[p_] = v_
                    if fn.args.vararg:
                        genv[fn.args.vararg.arg] = ("list", list(vals_[len(ps_):]))
                    nd_ = len(fn.args.defaults)
                    for i_, p_ in enumerate(ps_):
                        if p_ not in genv and i_ >= len(ps_) - nd_:
                            genv[p_] = self.expr(fn.args.defaults[i_ - (len(ps_) - nd_)], {"@owner": owner, "@module": mod0}, depth + 1)
                    genv.update(kwargs)
                    return ("ctxgen", fn, genv, owner)
            for d in decs:
                dn = unparse(d.func if isinstance(d, ast.Call) else d).split(".")[-1]
                if dn in ("lru_cache", "cache") and not getattr(self, "_in_memo", False):
                    # functools.lru_cache / cache: equal arguments give back the very same object
                    try:
                        mkey = (id(fn), tuple(a[1] if a[0] == "c" else (_ for _ in ()).throw(TypeError()) for a in args),
                                tuple(sorted((k_, v_[1] if v_[0] == "c" else (_ for _ in ()).throw(TypeError())) for k_, v_ in kwargs.items())))
                        hash(mkey)
                    except TypeError:
                        mkey = None
                    if mkey is not None:
                        if mkey not in self._memo:
                            self._in_memo = True
                            try:
                                self._memo[mkey] = self.call_function(fn, owner, self_val, args, kwargs, env0=env0, depth=depth, defaults_mod=defaults_mod)
                            finally:
                                self._in_memo = False
                        return self._memo[mkey]
            user = []
            for d in decs:
                if isinstance(d, ast.Name) and mod0 is not None:
                    r_ = self.repo.resolve_name(mod0, d.id)
                    if r_ and r_[0] == "func":
                        user.append(r_)
            if user:
                # a decorator defined in this repository wraps the function: what is called is what it returns
                inner = ("closure", fn, {"@module": mod0, "@owner": owner, "@undecorated": True}, owner, None)
                self._raw_call = True
                try:
                    wrapped = inner
                    for r_ in reversed(user):
                        wrapped = self.call_function(r_[2], None, None, [wrapped], {}, depth=depth + 1, defaults_mod=r_[1])
                finally:
                    self._raw_call = False
                if wrapped[0] == "closure" and wrapped[1] is not fn:
                    return self.apply(wrapped, ([self_val] if self_val is not None else []) + list(args), kwargs, {"@module": mod0}, depth + 1, None)
        a = fn.args
        params = [x.arg for x in a.posonlyargs + a.args]
        env = dict(env0 or {})
        env["@owner"] = owner
        env["@fname"] = getattr(fn, "name", "<lambda>")
        env["@module"] = owner.module if owner is not None else defaults_mod
        vals = list(args)
        if self_val is not None and params:
            env[params[0]] = self_val
            env["@self"] = params[0]
            params = params[1:]
        for p, v in zip(params, vals):
            env[p] = v
        if len(vals) > len(params):
            if a.vararg:
                env[a.vararg.arg] = ("list", vals[len(params):])
        nd = len(a.defaults)
        for i, p in enumerate(params):
            if p in env and i < len(vals):
                continue
            if p in kwargs:
                env[p] = kwargs[p]
            else:
                di = i - (len(params) - nd)
                if di >= 0:
                    if env0 is not None and ("@default", p) in env0:
                        env[p] = env0[("@default", p)]
                        continue
                    denv = {"@owner": owner, "@module": env["@module"]}
                    if owner is not None and not isinstance(fn, ast.Lambda):
                        # a default is evaluated in the class body: names of the class (META_FORMAT) come first
                        for n_ in {x_.id for x_ in ast.walk(a.defaults[di]) if isinstance(x_, ast.Name)}:
                            if n_ in owner.consts:
                                denv[n_] = self.class_const_value(owner, owner, owner.consts[n_])
                    dnode = a.defaults[di]
                    once = not isinstance(dnode, ast.Constant) and not isinstance(fn, ast.Lambda) and \
                        (owner is not None or env0 is None or all(isinstance(k_, str) and k_.startswith("@") for k_ in env0))
                    if once:
                        # a default is evaluated ONCE, when the def statement of a method / module-level function runs:
                        # every call that leaves the argument out gets that one value (one shared list, one key pair)
                        dm_ = self.__dict__.setdefault("_default_memo", {})
                        if id(dnode) not in dm_:
                            dm_[id(dnode)] = self.expr(dnode, denv, depth + 1)
                        env[p] = dm_[id(dnode)]
                    else:
                        env[p] = self.expr(dnode, denv, depth + 1)
                elif p not in env:
                    raise _Raise(("ext", "TypeError", []), "TypeError: %s() missing required argument %r" % (getattr(fn, "name", "lambda"), p))
        for x, d in zip(a.kwonlyargs, a.kw_defaults):
            if x.arg in kwargs:
                env[x.arg] = kwargs[x.arg]
            elif d is not None:
                env[x.arg] = self.expr(d, env, depth + 1)
        if a.kwarg:
            extra = {k: v for k, v in kwargs.items() if k not in params and k not in [x.arg for x in a.kwonlyargs]}
            env[a.kwarg.arg] = ("dict", extra)
        else:
            unknown = [k for k in kwargs if isinstance(k, str) and k != "**" and k not in params and k not in [x.arg for x in a.kwonlyargs]]
            if unknown and not isinstance(fn, ast.Lambda):
                raise _Raise(("ext", "TypeError", []), "TypeError: %s() got an unexpected keyword argument %r" % (getattr(fn, "name", "f"), unknown[0]))
        if a.vararg and a.vararg.arg not in env:
            env[a.vararg.arg] = ("list", [])
        pure = owner is not None and self.layer_base is not None and self.layer_base not in self.repo.mro(owner)
        honest = getattr(fn, "name", None) in getattr(self, "no_default_in", ())
        if honest:
            # a rule asked for honest case splits inside this (otherwise "pure") method
            saved_pd, self.pure_depth = self.pure_depth, 0
            pure = False
        if pure:
            self.pure_depth += 1
        if self.sym is not None:
            saved_fn, self.sym.current_fn = getattr(self.sym, "current_fn", None), getattr(fn, "name", None)
        try:
            if isinstance(fn, ast.Lambda):
                return self.expr(fn.body, env, depth + 1)
            if is_generator_function(fn):
                g_ = Gen(self, fn, env, depth)
                self._gens.append(g_)
                return ("gen", g_)
            try:
                self.block(fn.body, env, depth + 1)
            except _Return as r:
                return r.v
            return C_NONE
        finally:
            if self.sym is not None:
                self.sym.current_fn = saved_fn
            if pure:
                self.pure_depth -= 1
            if honest:
                self.pure_depth = saved_pd

    def closure_env(self, fn, env, depth):
        a = fn.args
        ds = list(a.defaults) + [d for d in a.kw_defaults if d is not None]
        if not ds or not any(isinstance(x, ast.Name) for d in ds for x in ast.walk(d)):
            return env
        extra = {}
        params = [x.arg for x in a.args]
        for p_, d in zip(params[len(params) - len(a.defaults):], a.defaults):
            try:
                extra[("@default", p_)] = self.expr(d, env, depth + 1)
            except (NeedAtom, _Raise):
                raise
        return ClosureEnv(env, extra)

    def block(self, stmts, env, depth):
        for s in stmts:
            self.stmt(s, env, depth)

    def stmt(self, s, env, depth):
        self.steps += 1
        if self.steps > self.max_steps:
            raise Budget()
        if isinstance(s, ast.Expr):
            if isinstance(s.value, ast.Constant):
                return
            self.expr(s.value, env, depth)
        elif isinstance(s, ast.Assign):
            v = self.expr(s.value, env, depth)
            for t in s.targets:
                self.assign(t, v, env, depth)
        elif isinstance(s, ast.AugAssign):
            cur = self.expr(ast.copy_location(_load(s.target), s.target), env, depth)
            rhs = self.expr(s.value, env, depth)
            v = None
            curf = self.force(cur)
            if isinstance(s.op, ast.Add):
                # `x += y` on a mutable sequence changes the object x names (every other name of it sees the change)
                m_ = self.model_of(curf) if self.models else None
                if m_ is not None and hasattr(m_, "iadd"):
                    v = m_.iadd(self, curf, rhs)
                elif curf[0] == "list" and not (len(curf) > 3 and curf[3] == "tuple"):
                    items = self.iterate(self.force(rhs))
                    if items is not None:
                        if self.on_write is not None:
                            self.on_write("call", curf, "+=", s, list(items))
                        curf[1].extend(items)
                        v = curf
                elif curf[0] == "c" and isinstance(curf[1], bytearray) and rhs[0] == "c" and isinstance(rhs[1], (bytes, bytearray)):
                    if self.on_write is not None:
                        self.on_write("call", curf, "+=", s, [rhs])
                    curf[1].extend(rhs[1])
                    v = curf
            if v is None:
                v = self.binop(s.op, cur, rhs, s)
            self.assign(s.target, v, env, depth)
        elif isinstance(s, ast.AnnAssign):
            if s.value is not None:
                self.assign(s.target, self.expr(s.value, env, depth), env, depth)
        elif isinstance(s, ast.Return):
            raise _Return(self.expr(s.value, env, depth) if s.value is not None else C_NONE)
        elif isinstance(s, ast.If):
            from .cfg import static_truth
            st = static_truth(s.test)
            t = st if st is not None else self.truth(self.expr(s.test, env, depth), unparse(s.test))
            self.block(s.body if t else s.orelse, env, depth)
        elif isinstance(s, ast.For):
            self.for_loop(s, env, depth)
        elif isinstance(s, ast.While):
            if self.sym is not None:
                # a generic iteration: integer locals the body assigns stand for "whatever earlier iterations left"
                stored = {x.id for b_ in s.body for x in ast.walk(b_) if isinstance(x, ast.Name) and isinstance(x.ctx, ast.Store)}
                for nm in sorted(stored):
                    cur = env.get(nm)
                    if cur is not None and (cur[0] == "lin" or (cur[0] == "c" and isinstance(cur[1], int) and not isinstance(cur[1], bool))):
                        sym_name = self.sym.fresh("N_" + nm + "_")
                        self.sym.havoc[nm] = (sym_name, cur)
                        env[nm] = ("lin", ((sym_name, 1),))
            if isinstance(s.test, ast.Constant) and s.test.value:
                t = True
            else:
                t = self.truth(self.expr(s.test, env, depth), unparse(s.test))
            rec = {"entered": bool(t), "exit": "not entered", "line": s.lineno}
            if self.sym is not None:
                self.sym.loops.append(rec)
            rounds = 0
            while t:
                rounds += 1
                self.push_loop()
                try:
                    self.block(s.body, env, depth)
                    rec["exit"] = "fallthrough"
                except _Break:
                    rec["exit"] = "break"
                    break
                except _Continue:
                    rec["exit"] = "continue"
                except (_Raise, _Return):
                    rec["exit"] = "raise/return"
                    raise
                finally:
                    self.pop_loop()
                if rounds >= self.loop_unroll:
                    break
                # further iterations only on request (a rule drives the loop with scripted values)
                t = True if (isinstance(s.test, ast.Constant) and s.test.value) else self.truth(self.expr(s.test, env, depth), unparse(s.test))
                if not t:
                    rec["exit"] = "condition false after %d iteration(s)" % rounds
        elif isinstance(s, ast.Raise):
            exc = self.expr(s.exc, env, depth) if s.exc is not None else env.get("@exc", ("unk", "reraise"))
            raise _Raise(exc, unparse(s))
        elif isinstance(s, ast.Try):
            self.try_stmt(s, env, depth)
        elif isinstance(s, ast.With):
            self.with_stmt(s, 0, env, depth)
        elif isinstance(s, (ast.FunctionDef, ast.AsyncFunctionDef)):
            env[s.name] = ("closure", s, self.closure_env(s, env, depth), env.get("@owner"), None)
        elif isinstance(s, ast.Assert):
            v = self.expr(s.test, env, depth)
            vc = self.concrete(v) if v[0] == "atom" else v
            t = s.test
            # only value comparisons whose operands are fully known under this cell may raise: membership in a tuple
            # of constants, (in)equality of constants / input atoms.  Type tests and anything the interpreter only
            # half-evaluates are left alone.
            definite = False
            if isinstance(t, ast.Compare) and len(t.ops) == 1 and not any(isinstance(x, ast.Call) and isinstance(x.func, ast.Name) and x.func.id in ("type", "isinstance", "len", "hasattr", "callable", "issubclass") for x in ast.walk(t)):
                lhs = self.expr(t.left, env, depth)
                rhs = self.expr(t.comparators[0], env, depth)
                lhs_c = self.concrete(lhs) if lhs[0] == "atom" else lhs
                simple = lambda x: x[0] in ("c", "other")
                if isinstance(t.ops[0], (ast.In, ast.NotIn)):
                    items = rhs[1] if rhs[0] == "list" and not (len(rhs) > 2 and rhs[2]) else (list(rhs[1]) if rhs[0] == "c" and isinstance(rhs[1], (tuple, list)) else None)
                    if items is not None and simple(lhs_c):
                        definite = all((isinstance(i, tuple) and len(i) == 2 and i[0] == "c") or not isinstance(i, tuple) for i in items) and len(items) > 0
                elif isinstance(t.ops[0], (ast.Eq, ast.NotEq)):
                    rhs_c = self.concrete(rhs) if rhs[0] == "atom" else rhs
                    definite = simple(lhs_c) and simple(rhs_c)
            if definite and vc[0] == "c" and not vc[1]:
                raise _Raise(("ext", "AssertionError", []), "AssertionError: %s" % unparse(s.test))
        elif isinstance(s, ast.Delete):
            for t in s.targets:
                if isinstance(t, ast.Subscript):
                    b = self.expr(t.value, env, depth)
                    if self.on_write is not None:
                        self.on_write("item", self.force(b), "del []", t, None)
                    if self.sym is not None and b[0] == "bufobj":
                        self.sym.delete(self, b, t.slice, env, depth)
                        continue
                    if b[0] == "c" and isinstance(b[1], (bytearray, list)):
                        # a constant that is a mutable object (bytearray(...) of constants): changed in place
                        if isinstance(t.slice, ast.Slice):
                            parts_ = [self.concrete(self.expr(x_, env, depth)) if x_ is not None else C_NONE for x_ in (t.slice.lower, t.slice.upper, t.slice.step)]
                            if all(p_[0] == "c" and (p_[1] is None or isinstance(p_[1], int)) for p_ in parts_):
                                del b[1][slice(parts_[0][1], parts_[1][1], parts_[2][1])]
                                continue
                        else:
                            k_ = self.concrete(self.expr(t.slice, env, depth))
                            if k_[0] == "c" and isinstance(k_[1], int):
                                try:
                                    del b[1][k_[1]]
                                except IndexError as x_:
                                    raise _Raise(("ext", "IndexError", []), "IndexError: %s" % x_)
                                continue
                        self.notes.append("unmodelled deletion: " + unparse(s))
                        continue
                    k = self.concrete(self.expr(t.slice, env, depth))
                    if b[0] == "node" and k[0] == "c":
                        b[1].attrs.pop(k[1], None)
                        b[1].removed.add(k[1])
                    elif b[0] == "dict" and k[0] == "c":
                        b[1].pop(k[1], None)
                    elif b[0] == "dict" and _dyn_find(b[1], self.expr(t.slice, env, depth)) is not None:
                        del b[1][_dyn_find(b[1], self.expr(t.slice, env, depth))]
                    elif b[0] == "list" and k[0] == "c" and isinstance(k[1], int) and not (len(b) > 2 and b[2]) and -len(b[1]) <= k[1] < len(b[1]):
                        del b[1][k[1]]
                    elif b[0] == "list" and isinstance(t.slice, ast.Slice) and not (len(b) > 2 and b[2]):
                        # del lst[a:b]: bounds must be constants
                        parts_ = [self.concrete(self.expr(x_, env, depth)) if x_ is not None else C_NONE for x_ in (t.slice.lower, t.slice.upper, t.slice.step)]
                        if all(p_[0] == "c" and (p_[1] is None or isinstance(p_[1], int)) for p_ in parts_):
                            del b[1][slice(parts_[0][1], parts_[1][1], parts_[2][1])]
                        else:
                            self.notes.append("unmodelled deletion from a list: " + unparse(s))
                    elif b[0] == "list":
                        self.notes.append("unmodelled deletion from a list: " + unparse(s))
        elif isinstance(s, ast.Break):
            raise _Break()
        elif isinstance(s, ast.Continue):
            raise _Continue()
        elif isinstance(s, (ast.Pass, ast.Import, ast.ImportFrom, ast.Global, ast.Nonlocal)):
            return
        else:
            self.notes.append("unhandled statement " + type(s).__name__)

    def handler_matches(self, h, exc, env, depth):
        """does `except <h.type>` catch the raised abstract value `exc`?"""
        if h.type is None:
            return True
        raised_cls = exc[1].cls if exc[0] == "obj" else (exc[1] if exc[0] == "cls" else None)
        rname = None
        if exc[0] in ("ext", "fn"):
            rname = exc[1].split("(")[0].split(".")[-1]
        ts = h.type.elts if isinstance(h.type, ast.Tuple) else [h.type]
        mod = env.get("@module")
        for t in ts:
            # a variable holding the classes to catch (`except wanted as e` with wanted a tuple parameter)
            if isinstance(t, ast.Name) and t.id in env:
                v = env[t.id]
                items = v[1] if v[0] == "list" else [v]
                for x in items:
                    if x[0] == "cls" and raised_cls is not None and x[1] in self.repo.mro(raised_cls):
                        return True
                    if x[0] == "ext":
                        xn = x[1].split("(")[0].split(".")[-1]
                        if xn in ("Exception", "BaseException") or (rname is not None and xn == rname):
                            return True
                        if raised_cls is not None and any(xn == b.split(".")[-1] for kk in self.repo.mro(raised_cls) for b in kk.ext_bases):
                            return True
                continue
            k_ = self.repo.resolve_expr_class(mod, t) if mod is not None else None
            if k_ is not None:
                if raised_cls is not None:
                    if k_ in self.repo.mro(raised_cls):
                        return True
                elif rname == k_.name:
                    return True
                continue
            nm = unparse(t).split(".")[-1]
            if isinstance(t, ast.Name) and mod is not None:
                rr = self.repo.resolve_name(mod, t.id)
                if rr and rr[0] == "ext" and isinstance(rr[1], str):
                    nm = rr[1].split(".")[-1]
            if nm in ("Exception", "BaseException"):
                return True
            if raised_cls is not None:
                if any(nm == b.split(".")[-1] for kk in self.repo.mro(raised_cls) for b in kk.ext_bases):
                    return True
            elif rname == nm:
                return True
        return False

    def with_stmt(self, s, i, env, depth):
        """`with a, b: body` - entering and leaving a context manager are effects (ENTER / EXIT with the manager value), the
        exit also happens when the body raises / returns / breaks; a generator-based manager of this repository
        (@contextmanager) is interpreted: the part before its `yield` on entry, the rest on exit - and on an exception
        only what a try/finally (or matching except) around the yield makes run"""
        if i >= len(s.items):
            self.block(s.body, env, depth)
            return
        item = s.items[i]
        v = self.expr(item.context_expr, env, depth)
        if v[0] == "ctxgen":
            self.ctxgen_with(v, s, i, item, env, depth)
            return
        bound = v
        if v[0] == "obj" and v[1].cls is not None:
            k, m = self.repo.find_method(v[1].cls, "__enter__")
            if m is not None:
                bound = self.call_function(m, k, v, [], {}, depth=depth + 1)
        h = self.hooks.get("with:enter")
        if h is not None:
            h(self, v)          # a rule observes (or interrupts) the acquisition of a library context manager (a lock)
        self.emit("ENTER", v)
        if item.optional_vars is not None:
            self.assign(item.optional_vars, bound, env, depth)
        try:
            self.with_stmt(s, i + 1, env, depth)
        finally:
            self.emit("EXIT", v)
            if v[0] == "obj" and v[1].cls is not None:
                k, m = self.repo.find_method(v[1].cls, "__exit__")
                if m is not None:
                    self.call_function(m, k, v, [C_NONE, C_NONE, C_NONE], {}, depth=depth + 1)

    def ctxgen_with(self, v, s, i, item, env, depth):
        fn, genv, owner = v[1], dict(v[2]), v[3]
        body = [st for st in fn.body if not (isinstance(st, ast.Expr) and isinstance(st.value, ast.Constant))]

        def is_yield(st):
            return isinstance(st, ast.Expr) and isinstance(st.value, ast.Yield) or (isinstance(st, ast.Assign) and isinstance(st.value, ast.Yield))
        # form A: pre...; yield; post...        form B: pre...; try: pre2...; yield; post2... [except...] finally: fin
        idx = next((j for j, st in enumerate(body) if is_yield(st)), None)
        tryidx = next((j for j, st in enumerate(body) if isinstance(st, ast.Try) and any(is_yield(x) for x in st.body)), None)
        if idx is None and tryidx is None:
            self.notes.append("context manager %s: yield not at the top level of the body or of a try" % fn.name)
            self.with_stmt(s, i + 1, env, depth)
            return
        if idx is not None:
            pre, ynode, post, trynode = body[:idx], body[idx], body[idx + 1:], None
        else:
            trynode = body[tryidx]
            yidx = next(j for j, st in enumerate(trynode.body) if is_yield(st))
            pre, ynode, post = body[:tryidx] + trynode.body[:yidx], trynode.body[yidx], trynode.body[yidx + 1:]
        self.block(pre, genv, depth + 1)
        yv = ynode.value.value
        bound = self.expr(yv, genv, depth + 1) if yv is not None else C_NONE
        if item.optional_vars is not None:
            self.assign(item.optional_vars, bound, env, depth)
        try:
            self.with_stmt(s, i + 1, env, depth)
        except (_Raise, _Return, _Break, _Continue) as x:
            # thrown into the generator at the yield: only a try around the yield reacts
            if trynode is not None:
                handled = False
                if isinstance(x, _Raise):
                    for h in trynode.handlers:
                        if self.handler_matches(h, x.exc, genv, depth):
                            if h.name:
                                genv[h.name] = x.exc
                            genv["@exc"] = x.exc
                            try:
                                self.block(h.body, genv, depth + 1)
                            finally:
                                self.block(trynode.finalbody, genv, depth + 1)
                            handled = True
                            break
                if not handled:
                    self.block(trynode.finalbody, genv, depth + 1)
                if handled:
                    return
            raise
        else:
            self.block(post, genv, depth + 1)
            if trynode is not None:
                self.block(trynode.orelse, genv, depth + 1)
                self.block(trynode.finalbody, genv, depth + 1)
                self.block(body[tryidx + 1:], genv, depth + 1)

    def try_stmt(self, s, env, depth):
        try:
            try:
                self.block(s.body, env, depth)
            except _Raise as r:
                name = None
                if r.exc[0] == "obj" and r.exc[1].cls is not None:
                    name = [k.name for k in self.repo.mro(r.exc[1].cls)] + r.exc[1].cls.ext_bases
                elif r.exc[0] in ("ext", "fn"):
                    name = [r.exc[1].split("(")[0].split(".")[-1]]
                elif r.exc[0] == "cls":
                    name = [k.name for k in self.repo.mro(r.exc[1])]
                raised_cls = r.exc[1].cls if r.exc[0] == "obj" else (r.exc[1] if r.exc[0] == "cls" else None)
                for h in s.handlers:
                    hn = []
                    matched = False
                    if h.type is not None and not all(isinstance(t_, (ast.Name, ast.Attribute)) for t_ in (h.type.elts if isinstance(h.type, ast.Tuple) else [h.type])):
                        # the caught classes are computed (`except tuple(k for k, _ in table)`): matched by value
                        hv = self.force(self.expr(h.type, env, depth))
                        if hv[0] == "fn" and hv[1] == "tuple" and len(hv[2]) == 1:
                            hv = self.force(hv[2][0])
                        hitems = self.iterate(hv) if hv[0] == "list" else [hv]
                        for cv in hitems or []:
                            cv = self.force(cv)
                            if cv[0] == "cls":
                                if raised_cls is not None:
                                    matched = matched or cv[1] in self.repo.mro(raised_cls)
                                else:
                                    hn.append(cv[1].name)
                            elif cv[0] in ("ext", "fn") and not cv[1].startswith(".") and "(" not in cv[1]:
                                nm = cv[1].split(".")[-1]
                                if nm in ("Exception", "BaseException"):
                                    matched = True
                                elif raised_cls is not None:
                                    matched = matched or any(nm == b.split(".")[-1] for kk in self.repo.mro(raised_cls) for b in kk.ext_bases)
                                else:
                                    hn.append(nm)
                    elif h.type is not None:
                        ts = h.type.elts if isinstance(h.type, ast.Tuple) else [h.type]
                        mod = env.get("@module")
                        for t in ts:
                            k_ = self.repo.resolve_expr_class(mod, t) if mod is not None else None
                            if k_ is not None:
                                # a class of this repository: caught iff the raised object is an instance of it (an opaque
                                # raised value is matched by name)
                                if raised_cls is not None:
                                    matched = matched or k_ in self.repo.mro(raised_cls)
                                else:
                                    hn.append(k_.name)
                                continue
                            nm = unparse(t).split(".")[-1]
                            if isinstance(t, ast.Name) and mod is not None:
                                rr = self.repo.resolve_name(mod, t.id)
                                if rr and rr[0] == "ext" and isinstance(rr[1], str):
                                    nm = rr[1].split(".")[-1]       # `import X as Y`: the handler names X
                            if nm in ("Exception", "BaseException"):
                                matched = True
                            elif raised_cls is not None:
                                # an external class: catches a repository exception only if that derives from it
                                matched = matched or any(nm == b.split(".")[-1] for kk in self.repo.mro(raised_cls) for b in kk.ext_bases)
                            else:
                                hn.append(nm)
                    if h.type is None or matched or (raised_cls is None and name and any(n in hn for n in name)):
                        if h.name:
                            env[h.name] = r.exc
                        env["@exc"] = r.exc
                        try:
                            self.block(h.body, env, depth)
                        finally:
                            if h.name:
                                # Python 3 unbinds the handler's name when the handler ends: a later read is an
                                # UnboundLocalError, not the exception
                                env[h.name] = ("unset", h.name)
                        break
                else:
                    raise
            else:
                self.block(s.orelse, env, depth)
        finally:
            if s.finalbody:
                self.block(s.finalbody, env, depth)

    def for_loop(self, s, env, depth):
        it = self.force(self.expr(s.iter, env, depth))
        if it[0] == "iter2":
            rec = {"entered": False, "exit": "not entered", "line": s.lineno}
            if self.sym is not None:
                self.sym.loops.append(rec)
            rounds = 0
            while True:
                v_ = self.force(self.apply(it[1], [], {}, env, depth + 1, None))
                if self.equal(v_, it[2], "iter-sentinel(%s)" % unparse(s.iter)):
                    if rounds:
                        rec["exit"] = "sentinel after %d iteration(s)" % rounds
                    else:
                        rec["exit"] = "break"
                    self.block(s.orelse, env, depth)
                    return
                rec["entered"] = True
                rounds += 1
                self.assign(s.target, v_, env, depth)
                self.push_loop()
                try:
                    self.block(s.body, env, depth)
                    rec["exit"] = "fallthrough"
                except _Break:
                    rec["exit"] = "break"
                    return
                except _Continue:
                    rec["exit"] = "continue"
                except (_Raise, _Return):
                    rec["exit"] = "raise/return"
                    raise
                finally:
                    self.pop_loop()
                if rounds >= max(self.loop_unroll, 1) and self.sym is not None:
                    return              # a generic iteration (symbolic buffers): further rounds only on request
                if rounds > Gen.MAX_ITEMS:
                    raise Budget()
        if it[0] == "gen":
            n_ = 0
            try:
                while True:
                    r_ = it[1].step()
                    if r_[0] == "stop":
                        self.block(s.orelse, env, depth)
                        return
                    n_ += 1
                    if n_ > Gen.MAX_ITEMS:
                        raise Budget()
                    self.assign(s.target, r_[1], env, depth)
                    try:
                        self.block(s.body, env, depth)
                    except _Break:
                        return
                    except _Continue:
                        continue
            finally:
                it[1].close()
        if it[0] == "items" and it[2] and it[1]:
            it = ("list", self.item_pairs(it[1]), True)
        items = self.iterate(it)
        if items is None and it[0] == "list" and it[1]:
            # open list: its known elements stand for all of them; effects count as repeated
            self.push_loop()
            try:
                for x in it[1]:
                    self.assign(s.target, x, env, depth)
                    try:
                        self.block(s.body, env, depth)
                    except _Break:
                        break
                    except _Continue:
                        continue
            finally:
                self.pop_loop()
            return
        if items is not None:
            for x in items:
                self.assign(s.target, x, env, depth)
                try:
                    self.block(s.body, env, depth)
                except _Break:
                    break
                except _Continue:
                    continue
            else:
                self.block(s.orelse, env, depth)
            return
        # unknown / symbolic iterable: body once, marked as repeated
        x = self.element_of(it)
        self.push_loop()
        try:
            self.assign(s.target, x, env, depth)
            self.block(s.body, env, depth)
        except (_Break, _Continue):
            pass
        finally:
            self.pop_loop()

    def iterate(self, it):
        """concrete list of element values, or None when the iterable is open/symbolic"""
        if it[0] == "list" and not (len(it) > 2 and it[2]):
            return list(it[1])
        if it[0] == "dict" and not (len(it) > 2 and it[2]):
            return [("c", k) for k in it[1]]
        if it[0] == "c" and isinstance(it[1], (tuple, list)):
            return [("c", x) for x in it[1]]
        if it[0] == "c" and isinstance(it[1], dict):
            return [("c", x) for x in it[1]]
        if it[0] == "c" and isinstance(it[1], (str, bytes, bytearray)) and len(it[1]) <= 4096:
            return [("c", x) for x in it[1]]
        if it[0] == "items" and not it[2]:
            return [("list", [("c", k), v]) for k, v in it[1].items()]
        if it[0] in ("ext", "fn") and "iterate" in self.hooks:
            # a scripted library object that can be iterated (a database cursor: its rows)
            r_ = self.hooks["iterate"](self, it)
            if r_ is not None:
                return list(r_)
        if it[0] == "gen":
            out = []
            try:
                while len(out) < Gen.MAX_ITEMS:
                    r_ = it[1].step()
                    if r_[0] == "stop":
                        return out
                    out.append(r_[1])
            finally:
                it[1].close()
            raise Budget()
        return None

    @staticmethod
    def item_pairs(d):
        """(key value, value) pairs of an abstract dict, dynamic entries included"""
        out = []
        for k, v in d.items():
            if isinstance(k, tuple) and k and k[0] == "dyn":
                if v[0] == "list" and len(v[1]) == 2:
                    out.append(("list", [v[1][0], v[1][1]]))
                else:
                    out.append(("list", [("fn", "key", [v]), v]))
            else:
                out.append(("list", [("c", k), v]))
        return out

    def element_of(self, it):
        if it[0] == "many":
            return it[1]
        if it[0] == "list" and it[1]:
            return ("fn", "element", list(it[1]))
        if it[0] == "items":
            return ("list", [("fn", "key", [("dict", it[1])]), ("fn", "value", [("dict", it[1])])])
        return ("fn", "element", [it])

    # ------------------------------------------------------------------ assignment
    def assign(self, t, v, env, depth):
        if isinstance(t, ast.Name):
            env[t.id] = v
        elif isinstance(t, (ast.Tuple, ast.List)):
            items = None
            if v[0] == "list" and len(v[1]) == len(t.elts):
                items = v[1]
            elif v[0] == "c" and isinstance(v[1], (tuple, list)) and len(v[1]) == len(t.elts):
                items = [("c", x) for x in v[1]]
            for i, e in enumerate(t.elts):
                self.assign(e, items[i] if items else ("fn", "item%d" % i, [v]), env, depth)
        elif isinstance(t, ast.Attribute):
            b = self.expr(t.value, env, depth)
            self.set_attr(b, t.attr, self._used(v), env, depth, t)
        elif isinstance(t, ast.Subscript):
            v = self._used(v)
            b = self.force(self.expr(t.value, env, depth))
            k = self.expr(t.slice, env, depth) if not isinstance(t.slice, ast.Slice) else ("unk", "slice")
            kc = k if k[0] == "c" else None
            if self.on_write is not None:
                self.on_write("item", b, "[]=", t, v)
            if b[0] == "node":
                if kc is not None:
                    b[1].attrs[kc[1]] = v
                    b[1].removed.discard(kc[1])
                else:
                    b[1].attrs_open.append(("kv", k, v))
            elif b[0] == "dict":
                if kc is not None and _hashable(kc[1]):
                    b[1][kc[1]] = v
                else:
                    dk = _dyn_find(b[1], k)
                    if dk is not None:
                        b[1][dk] = ("list", [k, v])
                    else:
                        n_ = len(b[1])
                        while ("dyn", n_) in b[1]:
                            n_ += 1
                        b[1][("dyn", n_)] = ("list", [k, v])
            elif b[0] == "list":
                if kc is not None and isinstance(kc[1], int) and -len(b[1]) <= kc[1] < len(b[1]):
                    b[1][kc[1]] = v
                elif isinstance(t.slice, ast.Slice) and t.slice.lower is None and t.slice.upper is None and t.slice.step is None:
                    # lst[:] = items : the list object keeps its identity and gets the new contents
                    items = self.iterate(v)
                    if items is not None:
                        b[1][:] = list(items)
                    else:
                        b[1][:] = [("fn", "star", [v])]
            elif b[0] == "obj":
                # obj[key] = v  -> __setitem__
                k2, m = self.repo.find_method(b[1].cls, "__setitem__") if b[1].cls else (None, None)
                if m is not None:
                    self.call_function(m, k2, b, [k, v], {}, depth=depth + 1)

    def set_attr(self, b, name, v, env, depth, node=None):
        b = self.force(b)
        if b[0] == "obj" and b[1].id in self.models:
            self.models[b[1].id].set(self, b, name, v, env, depth)
            return
        if b[0] == "obj":
            o = b[1]
            owner = env.get("@owner")
            name2 = self._mangle(owner, name)
            if name == "__class__" and v[0] == "cls":
                o.cls = v[1]
                return
            if o.cls is not None:
                setter = self._property(o.cls, name, "setter")
                if setter is not None:
                    self.call_function(setter[1], setter[0], b, [v], {}, depth=depth + 1)
                    return
            if self.on_write is not None:
                self.on_write("attr", b, name2, node, v)
            o.fields[name2] = v
        elif b[0] == "node":
            n = b[1]
            if name == "tag":
                n.tag = v
            elif name == "data":
                n.data = v
            elif name == "attributes":
                if v[0] == "dict":
                    n.attrs = dict(v[1])
                else:
                    n.attrs_open.append(("all", v))
            elif name == "children":
                if v[0] == "list":
                    n.children = [("one", x[1]) if x[0] == "node" else ("many", x) for x in v[1]]
        elif b[0] == "cls":
            self.class_attrs[(b[1].qname, name)] = v
            return
        elif b[0] in ("clsmethod", "bound") and self._function_of(b) is not None:
            tgt = self._function_of(b)
            self.__dict__.setdefault("_fn_attrs", {}).setdefault((tgt[0].qname, tgt[1]), {})[name] = v
            return
        elif b[0] in ("ext", "fn"):
            # a store on an opaque object: recorded (a config object that is filled in and then written)
            self.emit("SETATTR", b, name, v)

    @staticmethod
    def _mangle(owner, name):
        if owner is not None and name.startswith("__") and not name.endswith("__"):
            return "_" + owner.name.lstrip("_") + name
        return name

    def _property(self, cls, name, which):
        for k in self.repo.mro(cls):
            for fn in k.all_defs:
                if fn.name != name:
                    continue
                decs = [unparse(d) for d in fn.decorator_list]
                if which == "getter" and "property" in decs:
                    return k, fn
                if which == "setter" and any(d == name + ".setter" for d in decs):
                    return k, fn
        return None

    # ------------------------------------------------------------------ expressions
    def expr(self, e, env, depth):
        self.steps += 1
        if self.steps > self.max_steps:
            raise Budget()
        if e is None:
            return C_NONE
        if isinstance(e, ast.Constant):
            return ("c", e.value)
        if isinstance(e, ast.Name):
            return self.name(e.id, env)
        if isinstance(e, ast.Attribute):
            b = self.expr(e.value, env, depth)
            return self.get_attr(b, e.attr, env, depth, e)
        if isinstance(e, ast.Call):
            return self.call(e, env, depth)
        if isinstance(e, ast.Subscript):
            return self.subscript(e, env, depth)
        if isinstance(e, ast.Yield) and isinstance(env.get("@gen"), Gen):
            return env["@gen"].suspend(self.expr(e.value, env, depth) if e.value is not None else C_NONE)
        if isinstance(e, ast.YieldFrom) and isinstance(env.get("@gen"), Gen):
            sub = self.force(self.expr(e.value, env, depth))
            if sub[0] == "gen":
                try:
                    while True:
                        r_ = sub[1].step()
                        if r_[0] == "stop":
                            return r_[1]
                        env["@gen"].suspend(r_[1])
                finally:
                    sub[1].close()
            items_ = self.iterate(sub)
            if items_ is not None:
                for x_ in items_:
                    env["@gen"].suspend(x_)
                return C_NONE
            env["@gen"].suspend(self.element_of(sub))
            return C_NONE
        if isinstance(e, (ast.Tuple, ast.List)):
            out = []
            for x in e.elts:
                if isinstance(x, ast.Starred):
                    v = self.expr(x.value, env, depth)
                    items = self.iterate(v)
                    out += items if items is not None else [("fn", "star", [v])]
                else:
                    out.append(self.expr(x, env, depth))
            if isinstance(e, ast.Tuple) and out and all(x[0] == "c" and _hashable(x[1]) for x in out):
                return ("c", tuple(x[1] for x in out))      # constant tuple (usable as a dict key)
            return ("list", out)
        if isinstance(e, ast.Dict):
            d = {}
            opened = False
            for k, v in zip(e.keys, e.values):
                vv = self.expr(v, env, depth)
                if k is None:
                    if vv[0] == "dict":
                        d.update(vv[1])
                    else:
                        opened = True
                        d[("dyn", len(d))] = vv
                    continue
                kk = self.expr(k, env, depth)
                if kk[0] == "c" and _hashable(kk[1]):
                    d[kk[1]] = vv
                else:
                    d[("dyn", len(d))] = ("list", [kk, vv])
            return ("dict", d, opened) if opened else ("dict", d)
        if isinstance(e, ast.BoolOp):
            last = C_NONE
            for i, x in enumerate(e.values):
                last = self.expr(x, env, depth)
                if i == len(e.values) - 1:
                    return last
                if last[0] in ("fn", "unk") and self.pure_depth == 0:
                    # `a or b` / `a and b` used as a value with an opaque first operand: keep it symbolic
                    rest = [self.expr(y, env, depth) for y in e.values[i + 1:]]
                    return ("fn", type(e.op).__name__.lower(), [last] + rest)
                t = self.truth(last, unparse(x))
                if isinstance(e.op, ast.And) and not t:
                    return last
                if isinstance(e.op, ast.Or) and t:
                    return last
            return last
        if isinstance(e, ast.UnaryOp):
            v = self.expr(e.operand, env, depth)
            if isinstance(e.op, ast.Not):
                return ("c", not self.truth(v, unparse(e.operand)))
            if isinstance(e.op, ast.USub) and v[0] == "c" and isinstance(v[1], (int, float)):
                return ("c", -v[1])
            return ("fn", type(e.op).__name__, [v])
        if isinstance(e, ast.Compare):
            return self.compare(e, env, depth)
        if isinstance(e, ast.IfExp):
            from .cfg import static_truth
            st = static_truth(e.test)
            t = st if st is not None else self.truth(self.expr(e.test, env, depth), unparse(e.test))
            return self.expr(e.body if t else e.orelse, env, depth)
        if isinstance(e, ast.BinOp):
            return self.binop(e.op, self.expr(e.left, env, depth), self.expr(e.right, env, depth), e)
        if isinstance(e, ast.Lambda):
            return ("closure", e, self.closure_env(e, env, depth), env.get("@owner"), None)
        if isinstance(e, (ast.ListComp, ast.GeneratorExp, ast.SetComp)):
            return self.comprehension(e, env, depth)
        if isinstance(e, ast.DictComp):
            g = e.generators[0]
            it = self.expr(g.iter, env, depth)
            items = self.iterate(it)
            if items is not None and len(e.generators) == 1:
                d = {}
                for x in items:
                    env2 = dict(env)
                    self.assign(g.target, x, env2, depth)
                    if all(self.truth(self.expr(c, env2, depth), unparse(c)) for c in g.ifs):
                        kk = self.expr(e.key, env2, depth)
                        vv = self.expr(e.value, env2, depth)
                        d[kk[1] if kk[0] == "c" and _hashable(kk[1]) else ("dyn", len(d))] = vv
                return ("dict", d)
            env2 = dict(env)
            self.assign(g.target, self.element_of(it), env2, depth)
            return ("dict", {("dyn", 0): ("list", [self.expr(e.key, env2, depth), self.expr(e.value, env2, depth)])}, True)
        if isinstance(e, ast.JoinedStr):
            parts = [self.expr(v.value, env, depth) for v in e.values if isinstance(v, ast.FormattedValue)]
            return ("fn", "fstring", parts)
        if isinstance(e, ast.Starred):
            return self.expr(e.value, env, depth)
        return ("unk", type(e).__name__)

    def comprehension(self, e, env, depth):
        g = e.generators[0]
        it = self.expr(g.iter, env, depth)
        items = self.iterate(it)
        if items is not None and len(e.generators) == 1:
            out = []
            for x in items:
                env2 = dict(env)
                self.assign(g.target, x, env2, depth)
                if all(self.truth(self.expr(c, env2, depth), unparse(c)) for c in g.ifs):
                    out.append(self.expr(e.elt, env2, depth))
            return ("list", out)
        env2 = dict(env)
        self.assign(g.target, self.element_of(it), env2, depth)
        self.push_loop()
        try:
            v = self.expr(e.elt, env2, depth)
        finally:
            self.pop_loop()
        return ("list", [v], True)

    def name(self, n, env):
        if n in env:
            return env[n]
        if n in ("True", "False", "None"):
            return ("c", {"True": True, "False": False, "None": None}[n])
        mod = env.get("@module")
        if mod is not None:
            r = self.repo.resolve_name(mod, n)
            if r:
                if r[0] == "class":
                    return ("cls", r[1])
                if r[0] == "assign":
                    h = self.hooks.get("resolve")
                    if h is not None:
                        hv = h(self, r[1], n, r[2])
                        if hv is not None:
                            return hv
                    a = const_alts(Evaluator(self.repo, r[1], None).ev(r[2]))
                    if a is not None and len(a) == 1:
                        return ("c", a[0])
                    # a module-level table of classes / functions (not a constant): interpreted once, in its own module
                    key = ("@global", r[1].name, n)
                    if key not in self.class_attrs:
                        self.class_attrs[key] = ("fn", "global " + n, [])        # guards against self-reference
                        if isinstance(r[2], (ast.Tuple, ast.List, ast.Dict, ast.Name, ast.Attribute, ast.Call, ast.Lambda)) and not any(isinstance(x, (ast.Yield, ast.Await)) for x in ast.walk(r[2])):
                            try:
                                v_ = self.expr(r[2], {"@module": r[1], "@owner": None}, 1)
                                if v_[0] in ("list", "dict", "cls", "closure", "ext") or (v_[0] == "c"):
                                    self.class_attrs[key] = v_
                            except (NeedAtom, _Raise, Budget):
                                pass
                    return self.class_attrs[key]
                if r[0] == "func":
                    return ("closure", r[2], {"@module": r[1], "@owner": None}, None, None)
                if r[0] == "module":
                    return ("ext", "module " + (r[1].name if r[1] else n), [])
                if r[0] == "ext":
                    return ("ext", r[1], [])
        return ("ext", n, [])

    def binop(self, op, l, r, e=None):
        if self.models:
            m_ = self.model_of(l) or self.model_of(r)
            if m_ is not None and hasattr(m_, "binop"):
                v = m_.binop(self, op, l, r)
                if v is not None:
                    return v
        if self.sym is not None and (self.sym.is_sym(l) or self.sym.is_sym(r) or self.sym.byteish(l) or self.sym.byteish(r)):
            v = self.sym.binop(self, op, l, r)
            if v is not None:
                return v
        if l[0] == "c" and r[0] == "c":
            try:
                import operator
                f = {ast.Add: operator.add, ast.Sub: operator.sub, ast.Mult: operator.mul, ast.Mod: operator.mod, ast.FloorDiv: operator.floordiv,
                     ast.BitOr: operator.or_, ast.BitAnd: operator.and_, ast.LShift: operator.lshift, ast.RShift: operator.rshift,
                     ast.Div: operator.truediv, ast.BitXor: operator.xor, ast.Pow: operator.pow}.get(type(op))
                if isinstance(op, ast.Pow) and not (isinstance(r[1], int) and isinstance(l[1], (int, float)) and abs(r[1]) <= 64 and abs(l[1]) <= 1 << 64):
                    f = None
                if isinstance(op, ast.LShift) and not (isinstance(r[1], int) and 0 <= r[1] <= 4096):
                    f = None
                if f is not None:
                    return ("c", f(l[1], r[1]))
            except Exception:
                pass
        if isinstance(op, ast.Mult) and l[0] == "list" and r[0] == "c" and isinstance(r[1], int) and 0 <= r[1] <= 4096 and not (len(l) > 2 and l[2]):
            return ("list", list(l[1]) * r[1])
        if isinstance(op, ast.Add) and l[0] == "list" and r[0] == "list":
            return ("list", l[1] + r[1], (len(l) > 2 and l[2]) or (len(r) > 2 and r[2])) if (len(l) > 2 and l[2]) or (len(r) > 2 and r[2]) else ("list", l[1] + r[1])
        if isinstance(op, ast.Mod) and r[0] == "list":
            return ("fn", "format", [l] + r[1])
        return ("fn", type(op).__name__, [l, r])

    def compare(self, e, env, depth):
        left = self.expr(e.left, env, depth)
        res = True
        for op, c in zip(e.ops, e.comparators):
            right = self.expr(c, env, depth)
            text = "%s %s %s" % (unparse(e.left), type(op).__name__, unparse(c))
            sr = None
            if self.sym is not None and (self.sym.is_sym(left) or self.sym.is_sym(right) or self.sym.byteish(left) or self.sym.byteish(right)):
                sr = self.sym.compare(self, op, left, right, text)
            if sr is not None:
                r = sr
            elif isinstance(op, (ast.Eq, ast.Is)):
                r = self.equal(left, right, text, identity=isinstance(op, ast.Is))
            elif isinstance(op, (ast.NotEq, ast.IsNot)):
                r = not self.equal(left, right, text, identity=isinstance(op, ast.IsNot))
            elif isinstance(op, (ast.In, ast.NotIn)):
                r = self.contains(right, left, text)
                if isinstance(op, ast.NotIn):
                    r = not r
            else:
                a, b = self.concrete(left), self.concrete(right)
                if a[0] == "c" and b[0] == "c":
                    try:
                        import operator
                        r = {ast.Lt: operator.lt, ast.LtE: operator.le, ast.Gt: operator.gt, ast.GtE: operator.ge}[type(op)](a[1], b[1])
                    except Exception:
                        r = self.free("cmp(%s)" % text)
                else:
                    r = self.free("cmp(%s)" % text)
            res = res and r
            if not res:
                break
            left = right
        return ("c", bool(res))

    def dict_lookup(self, d, opened, key):
        """-> ('found', dict key) | ('absent', None) | ('unknown', None) for an abstract dict and an abstract key"""
        dk = _dyn_find(d, key)
        if dk is not None:
            return "found", dk
        has_dyn = any(isinstance(x, tuple) and x and x[0] == "dyn" for x in d)
        if key[0] == "ext" and key[2] and not opened and d and all(isinstance(x, tuple) and x and x[0] == "dyn" and v[0] == "list" and len(v[1]) == 2 and v[1][0][0] == "ext" and v[1][0][1] == key[1] and v[1][0] != key for x, v in d.items()):
            return "absent", None          # value objects of one class built from other arguments: another key
        if key[0] == "cls" and not opened and all(isinstance(x, tuple) and x and x[0] == "dyn" and v[0] == "list" and len(v[1]) == 2 and v[1][0][0] == "cls" for x, v in d.items()):
            return "absent", None          # a table keyed by classes, asked for a class it does not list
        if not d and not opened:
            return "absent", None          # nothing stored: no need to look at the key at all
        if key[0] == "atom":
            for kx in d:
                if not (isinstance(kx, tuple) and kx and kx[0] == "dyn"):
                    self.note_const(key[1], kx)
        kc = self.concrete(key) if key[0] == "atom" else key
        if kc[0] == "c" and _hashable(kc[1]):
            if kc[1] in d and not (isinstance(kc[1], tuple) and kc[1] and kc[1][0] == "dyn"):
                return "found", kc[1]
            return ("absent", None) if not has_dyn and not opened else ("unknown", None)
        if kc[0] == "other":
            return ("absent", None) if not has_dyn and not opened else ("unknown", None)
        if not d and not opened:
            return "absent", None
        if not opened and _closed_key(key) and all((isinstance(x, tuple) and x and x[0] == "dyn" and v[0] == "list" and len(v[1]) == 2 and _closed_key(v[1][0])) or not (isinstance(x, tuple) and x and x[0] == "dyn") for x, v in d.items()):
            # keys made of constants and object identities (a (key object, b"info") pair): none stored equals this one
            if key[0] != "c":
                return "absent", None
        return "unknown", None

    def contains(self, container, item, text):
        if container[0] == "fn" and self._attrs_of_node(container) is not None:
            v_ = self.node_attr(self._attrs_of_node(container), item)
            if v_[0] in ("atom", "c"):
                return self.concrete(v_) != C_NONE
        if container[0] == "c" and isinstance(container[1], (tuple, list)) and item[0] == "c" and isinstance(item[1], (str, bytes)) and len(container[1]) > 32:
            # a long table of constants asked about a constant string: Python's own comparison (strings equal no other type)
            return any(type(x) is type(item[1]) and x == item[1] for x in container[1])
        if container[0] == "c" and isinstance(container[1], (tuple, list, str, dict, set, frozenset)):
            elems = [("c", x) for x in container[1]] if not isinstance(container[1], str) else None
            if elems is None:
                it = self.concrete(item)
                if it[0] == "c" and isinstance(it[1], str):
                    return it[1] in container[1]
                return self.free("in(%s)" % text)
            container = ("list", elems)
        if container[0] == "list" and not (len(container) > 2 and container[2]):
            if item[0] == "atom":
                for x in container[1]:
                    if x[0] == "c":
                        self.note_const(item[1], x[1])
            if item[0] == "c" and isinstance(item[1], (str, bytes)) and len(container[1]) > 32 and all(x[0] == "c" for x in container[1]):
                return any(type(x[1]) is type(item[1]) and x[1] == item[1] for x in container[1])
            return any(self.equal(item, x, text) for x in container[1])
        if container[0] == "dict" and not (len(container) > 2 and container[2]):
            if not container[1]:
                return False
            if _dyn_find(container[1], item) is not None:
                return True
            if self.dict_lookup(container[1], False, item)[0] == "absent":
                return False
            if item[0] == "atom":
                for kx in container[1]:
                    if not (isinstance(kx, tuple) and kx and kx[0] == "dyn"):
                        self.note_const(item[1], kx)
            it = self.concrete(item)
            if it[0] == "other" and not any(isinstance(kx, tuple) and kx and kx[0] == "dyn" for kx in container[1]):
                return False
            if it[0] == "c":
                if any(isinstance(k, tuple) and k and k[0] == "dyn" for k in container[1]):
                    return True if (_hashable(it[1]) and it[1] in container[1]) else self.free("in(%s)" % text)
                return _hashable(it[1]) and it[1] in container[1]
        return self.free("in(%s)" % text)

    def subscript(self, e, env, depth):
        b = self.expr(e.value, env, depth)
        if self.sym is not None and b[0] == "bufobj":
            return self.sym.subscript(self, b, e, env, depth)
        if isinstance(e.slice, ast.Slice):
            lo = self.expr(e.slice.lower, env, depth) if e.slice.lower is not None else C_NONE
            hi = self.expr(e.slice.upper, env, depth) if e.slice.upper is not None else C_NONE
            st = self.expr(e.slice.step, env, depth) if e.slice.step is not None else C_NONE
            m_ = self.model_of(self.force(b)) if self.models else None
            if m_ is not None and hasattr(m_, "slice"):
                v_ = m_.slice(self, self.force(b), lo, hi, st)
                if v_ is not None:
                    return v_
            if b[0] == "c" and lo[0] == hi[0] == st[0] == "c":
                try:
                    return ("c", b[1][lo[1]:hi[1]:st[1]])
                except Exception:
                    pass
            if b[0] == "list" and lo[0] == hi[0] == st[0] == "c" and not (len(b) > 2 and b[2]):
                return ("list", b[1][lo[1]:hi[1]:st[1]])
            return ("fn", "slice", [b, lo, hi])
        k = self.expr(e.slice, env, depth)
        return self.getitem(b, k, env, depth, e)

    def getitem(self, b, k, env, depth, e=None):
        b = self.force(b, deref=True)
        if self.models:
            m_ = self.model_of(b)
            if m_ is not None and hasattr(m_, "index"):
                v_ = m_.index(self, b, k)
                if v_ is not None:
                    return v_
        if b[0] == "node":
            return self.node_attr(b[1], k)
        if b[0] == "fn" and self._attrs_of_node(b) is not None:
            return self.node_attr(self._attrs_of_node(b), k)
        kc = self.concrete(k) if k[0] == "atom" and b[0] in ("dict",) else k
        if b[0] == "list" and k[0] == "c" and isinstance(k[1], int):
            if -len(b[1]) <= k[1] < len(b[1]) and not (len(b) > 2 and b[2] and k[1] < 0):
                return b[1][k[1]]
            return ("fn", "item", [b])
        if b[0] == "dict":
            if kc[0] == "c" and _hashable(kc[1]) and kc[1] in b[1]:
                return b[1][kc[1]]
            dk = _dyn_find(b[1], k)
            if dk is not None:
                return b[1][dk][1][1]
            if _closed_key(kc):
                st_, _dk = self.dict_lookup(b[1], len(b) > 2 and b[2], kc)
                if st_ == "absent":
                    raise _Raise(("ext", "KeyError", []), "KeyError: %s" % show(k)[:40])
            return ("fn", "item", [b, k])
        if b[0] == "c" and k[0] == "c":
            try:
                return ("c", b[1][k[1]])
            except (IndexError, KeyError) as x_:
                # a constant sequence / mapping indexed outside itself raises what Python raises
                raise _Raise(("ext", type(x_).__name__, []), "%s: %s" % (type(x_).__name__, x_))
            except Exception:
                return ("unk", "bad index")
        if b[0] == "obj" and b[1].cls is not None:
            k2, m = self.repo.find_method(b[1].cls, "__getitem__")
            if m is not None:
                return self.call_function(m, k2, b, [k], {}, depth=depth + 1)
        if b[0] == "many":
            return b[1]
        if b[0] == "c" and b[1] is None:
            raise _Raise(("ext", "TypeError", []), "TypeError: 'NoneType' object is not subscriptable")
        if b[0] == "fn" and k[0] == "c" and isinstance(k[1], int) and k[1] >= 0:
            # a known prefix: (b'\x00' + X)[0], through bytes / bytearray conversions
            t = b
            while t[0] == "fn" and t[1] in ("bytes", "bytearray") and len(t[2]) == 1:
                t = t[2][0]
            if t[0] == "fn" and t[1] == "Add" and len(t[2]) == 2 and t[2][0][0] == "c" and isinstance(t[2][0][1], (bytes, bytearray)) and k[1] < len(t[2][0][1]):
                return ("c", t[2][0][1][k[1]])
        return ("fn", "item", [b, k])

    # ------------------------------------------------------------------ nodes
    def node_attr(self, n, k):
        kc = k
        if kc[0] != "c":
            return ("fn", "attr", [("node", n), k])
        key = kc[1]
        if key in n.attrs:
            return n.attrs[key]
        if key in n.removed:
            return C_NONE
        if n.symbolic:
            return ("atom", ("A", n.path, key))
        if n.attrs_open:
            return ("fn", "attr %s" % key, [x[-1] for x in n.attrs_open])
        return C_NONE

    def node_child(self, n, tag_v):
        t = self.concrete(tag_v)
        if t[0] != "c":
            return ("fn", "child", [("node", n), tag_v])
        tag = t[1]
        if isinstance(tag, int):
            real = [c for c in n.children]
            if n.symbolic:
                return ("fn", "child#%d" % tag, [("node", n)])
            if tag < len(real) and real[tag][0] == "one":
                return ("node", real[tag][1])
            return C_NONE if not real else ("fn", "child#%d" % tag, [("node", n)])
        for kind, c in n.children:
            if isinstance(c, Node) and c.tag is not None and c.tag[0] == "c" and c.tag[1] == tag:
                return ("node", c)
        dyn = [c for kind, c in n.children if not (isinstance(c, Node) and c.tag is not None and c.tag[0] == "c")]
        if n.symbolic:
            return ("lazychild", n, tag)
        if dyn:
            if self.free("child %s among dynamic children" % tag):
                c = dyn[0]
                return ("node", c) if isinstance(c, Node) else c
        return C_NONE

    def node_method(self, b, name, args, kwargs, env, depth, e):
        n = b[1]
        if name in ("getAttributeValue", "__getitem__"):
            return self.node_attr(n, args[0] if args else ("unk", "noarg"))
        if name in ("setAttribute", "__setitem__"):
            k = args[0]
            if k[0] == "c":
                n.attrs[k[1]] = args[1]
                n.removed.discard(k[1])
            else:
                n.attrs_open.append(("kv", k, args[1]))
            return C_NONE
        if name in ("removeAttribute", "__delitem__"):
            k = args[0]
            if k[0] == "c":
                n.attrs.pop(k[1], None)
                n.removed.add(k[1])
            return C_NONE
        if name == "getChild":
            return self.node_child(n, args[0] if args else ("c", 0))
        if name == "getAllChildren":
            if n.symbolic:
                t = self.concrete(args[0]) if args else C_NONE
                tagtxt = (t[1] if t[0] == "c" and t[1] is not None else "*")
                key = "%s*" % tagtxt
                if key not in n.sym_children:
                    n.sym_children[key] = Node(("c", t[1]) if t[0] == "c" and t[1] is not None else ("atom", ("A", n.path + (key,), "#tag")), n.path + (key,))
                return ("many", ("node", n.sym_children[key]))
            if args:
                t = self.concrete(args[0])
                if t[0] == "c" and t[1] is not None:
                    out = []
                    opened = False
                    for kind, c in n.children:
                        if isinstance(c, Node) and c.tag is not None and c.tag[0] == "c":
                            if c.tag[1] == t[1]:
                                if kind == "one":
                                    out.append(("node", c))
                                else:
                                    opened = True
                                    out.append(("node", c))
                        else:
                            opened = True
                    return ("list", out, True) if opened else ("list", out)
            out = []
            opened = False
            for kind, c in n.children:
                out.append(("node", c) if isinstance(c, Node) else c)
                opened = opened or kind != "one"
            return ("list", out, True) if opened else ("list", out)
        if name == "addChild":
            c = self.force(args[0])
            if c[0] == "node":
                kind = "many" if len(self._eff_stack) > getattr(n, "_loopdepth", 1) else "one"
                n.children.append((kind, c[1]))
            else:
                n.children.append(("many", c))
            return C_NONE
        if name == "addChildren":
            c = args[0]
            items = self.iterate(c)
            if items is not None:
                for x in items:
                    n.children.append(("one", x[1]) if x[0] == "node" else ("many", x))
            elif c[0] == "list":
                for x in c[1]:
                    n.children.append(("many", x[1]) if x[0] == "node" else ("many", x))
            else:
                n.children.append(("many", c))
            return C_NONE
        if name == "getData":
            return self.node_data(n)
        if name == "setData":
            n.data = args[0]
            return C_NONE
        if name == "hasChildren":
            if n.symbolic:
                return ("c", self.free("hasChildren(%s)" % "/".join(n.path)))
            return ("c", bool(n.children))
        if name in ("__str__", "toString"):
            return ("fn", "str", [b])
        self.api_misuse.append((e, "ProtocolTreeNode has no method %r" % name))
        return ("unk", "bad node api " + name)

    def _loop_depth_at_create(self, n):
        return getattr(n, "_loopdepth", 1)

    def node_data(self, n):
        if n.data != C_NONE or not n.symbolic:
            return n.data
        return ("atom", ("A", n.path, "#data"))

    def new_node(self, args, kwargs):
        n = Node()
        n._loopdepth = len(self._eff_stack)
        names = ["tag", "attributes", "children", "data"]
        vals = dict(zip(names, args))
        vals.update(kwargs)
        n.tag = vals.get("tag", ("unset", "tag"))
        a = vals.get("attributes")
        if a is not None:
            a = self.concrete(a) if a[0] == "atom" else a
            if a[0] == "dict":
                for k, v in a[1].items():
                    if isinstance(k, tuple) and k and k[0] == "dyn":
                        n.attrs_open.append(("kv",) + tuple(v[1]) if v[0] == "list" and len(v[1]) == 2 else ("all", v))
                    else:
                        n.attrs[k] = v
                if len(a) > 2 and a[2]:
                    n.attrs_open.append(("all", a))
            elif a != C_NONE:
                n.attrs_open.append(("all", a))
        c = vals.get("children")
        if c is not None and c != C_NONE:
            if c[0] == "list":
                opened = len(c) > 2 and c[2]
                for x in c[1]:
                    n.children.append(("many" if opened else "one", x[1]) if x[0] == "node" else ("many", x))
            else:
                n.children.append(("many", c))
        d = vals.get("data")
        if d is not None:
            n.data = d
        return ("node", n)

    # ------------------------------------------------------------------ attributes of values
    def get_attr(self, b, name, env, depth, e=None):
        b = self.force(b, deref=True)
        k = b[0]
        if k == "obj" and b[1].id in self.models:
            return self.models[b[1].id].get(self, b, name, env, depth)
        if k == "obj":
            o = b[1]
            owner = env.get("@owner")
            name2 = self._mangle(owner, name)
            if name2 in o.fields:
                if "@trace_reads" in o.fields:
                    self.emit("GETATTR", b, name)       # a rule wants to see WHEN this object's state is looked at
                return o.fields[name2]
            if name == "__class__":
                return ("cls", o.cls)
            if o.cls is not None:
                g = self._property(o.cls, name, "getter")
                if g is not None:
                    return self.call_function(g[1], g[0], b, [], {}, depth=depth + 1)
                kk, m = self.repo.find_method(o.cls, name)
                if m is not None:
                    return ("bound", b, name)
                kc, ce = self.repo.class_const(o.cls, name)
                if ce is not None:
                    # a mutable object created in the class body (a dict used as a cache) is ONE object, shared by every
                    # instance and every read
                    if (kc.qname, name) in self.class_attrs:
                        return self.class_attrs[(kc.qname, name)]
                    v_ = self.class_const_value(kc, o.cls, ce)
                    if v_[0] in ("list", "dict") and isinstance(ce, (ast.Dict, ast.List, ast.Set, ast.Call, ast.ListComp, ast.DictComp)):
                        self.class_attrs[(kc.qname, name)] = v_
                    return v_
                # mangled private of another class in the hierarchy
                for kx in self.repo.mro(o.cls):
                    nm = self._mangle(kx, name)
                    if nm in o.fields:
                        return o.fields[nm]
                if any(x for k_ in self.repo.mro(o.cls) for x in k_.ext_bases if x != "object"):
                    if ("method:" + name) in self.hooks:
                        return ("bound", b, name)     # a method of an external base class the rule wants to observe
                    return ("fn", "inherited." + name, [b])
            if o.cls is None and ("method:" + name) in self.hooks:
                return ("bound", b, name)         # a stand-in object whose method the rule observes
            return ("unset", name)
        if k == "node":
            n = b[1]
            if name == "tag":
                return n.tag if n.tag is not None else ("unset", "tag")
            if name == "data":
                return self.node_data(n)
            if name == "attributes":
                if n.symbolic:
                    return ("fn", "attributes", [b])
                d = dict(n.attrs)
                return ("dict", d, True) if n.attrs_open else ("dict", d)
            if name == "children":
                return self.node_method(b, "getAllChildren", [], {}, env, depth, e)
            return ("bound", b, name)
        if k == "cls":
            c = b[1]
            for kx in self.repo.mro(c):
                if (kx.qname, name) in self.class_attrs:
                    return self.class_attrs[(kx.qname, name)]
            kk, m = self.repo.find_method(c, name)
            if m is not None:
                return ("clsmethod", c, name)
            kc, ce = self.repo.class_const(c, name)
            if ce is None:
                # a name-mangled private (`self.__class__.__x` inside class K is `_K__x`): stored under its source name
                for kx in self.repo.mro(c):
                    pre = "_" + kx.name.lstrip("_") + "__"
                    if name.startswith(pre) and ("__" + name[len(pre):]) in kx.consts:
                        kc, ce = kx, kx.consts["__" + name[len(pre):]]
                        break
            if ce is not None:
                v = self.class_const_value(kc, c, ce)
                if v[0] in ("list", "dict") and isinstance(ce, (ast.Dict, ast.List, ast.Set, ast.Call, ast.ListComp, ast.DictComp)):
                    self.class_attrs[(kc.qname, name)] = v          # one shared mutable object
                if v == ("fn", "const", []) and isinstance(ce, ast.Call) and self.repo.resolve_expr_class(kc.module, ce.func) is None:
                    # an object of an external class created once in the class body (a queue, a lock): one shared opaque
                    # object whose method calls are recorded
                    v = ("ext", "%s.%s" % (kc.name, name.split("__")[-1]), [])
                    self.class_attrs[(kc.qname, name)] = v
                return v
            if name == "__name__":
                return ("c", c.name)
            return ("fn", "%s.%s" % (c.name, name), [])
        if k == "c" and name == "__class__":
            return ("ext", type(b[1]).__name__, [])
        if k == "c":
            if b[1] is None and not name.startswith("__"):
                # attribute of None: decided when it is called or used; a plain read raises
                return ("bound", b, name)
            return ("bound", b, name)
        if k == "atom":
            return ("bound", b, name)
        if k == "dict" and name in ("items", "keys", "values", "get", "update", "pop", "setdefault", "copy", "__getitem__", "__contains__", "__len__"):
            return ("bound", b, name)
        if k == "list" and name in ("append", "extend", "index", "pop", "insert", "remove", "sort", "reverse", "count", "copy", "clear", "add", "discard", "update", "__getitem__", "__contains__", "__len__"):
            return ("bound", b, name)
        if k == "bufobj":
            return ("bound", b, name)
        if k == "ext" and b[1].startswith("module "):
            rv = self.repo_module_attr(b[1], name)
            if rv is not None:
                return rv
        if k == "ext" and (b[1].split(".")[-1].split(" ")[-1], name) in self.LIB_CONST:
            return self.LIB_CONST[(b[1].split(".")[-1].split(" ")[-1], name)]
        if k in ("ext", "fn", "unk", "unset", "many", "other"):
            return ("fn", "." + name, [b])
        if k in ("bound", "clsmethod"):
            # an attribute of a function of this repository (set by a decorator: `fn.event_callback = name`)
            tgt = self._function_of(b)
            if tgt is not None:
                if name == "__name__":
                    return ("c", tgt[1])
                if name == "__self__" and k == "bound":
                    return b[1]
                if not (name.startswith("__") and name.endswith("__")):
                    attrs_ = self.func_attrs(tgt[0], tgt[1])
                    return attrs_.get(name, ("unset", name))
        if k == "bound" or k == "closure":
            return ("fn", "." + name, [])
        return ("fn", "." + name, [b])

    def _function_of(self, v):
        """(class, method name) of a bound method / function value of this repository, else None"""
        if v[0] == "clsmethod":
            kk, m = self.repo.find_method(v[1], v[2])
            return (kk, v[2]) if m is not None else None
        if v[0] == "bound":
            r = self.force(v[1])
            if r[0] == "obj" and r[1].cls is not None and r[1].id not in self.models and isinstance(v[2], str):
                kk, m = self.repo.find_method(r[1].cls, v[2])
                return (kk, v[2]) if m is not None else None
        return None

    def func_attrs(self, kc, name):
        """attributes the decorators of method `name` of class kc leave on the function object: the decorators that are
        classes / functions of this repository are applied, innermost first, as the class statement does; what they store
        on the function they were handed is kept"""
        table = self.__dict__.setdefault("_fn_attrs", {})
        key = (kc.qname, name)
        if key not in table:
            table[key] = {}
            fn = kc.methods.get(name)
            val = ("clsmethod", kc, name)
            for d in reversed(getattr(fn, "decorator_list", None) or []):
                dn = unparse(d.func if isinstance(d, ast.Call) else d).split(".")[-1]
                if dn in ("staticmethod", "classmethod", "property", "contextmanager", "lru_cache", "cache", "wraps", "setter", "getter", "deleter"):
                    continue
                try:
                    denv = {"@module": kc.module, "@owner": kc}
                    for n_ in {x_.id for x_ in ast.walk(d) if isinstance(x_, ast.Name)}:
                        if n_ in kc.consts:          # a decorator is evaluated in the class body: its names come first
                            denv[n_] = self.class_const_value(kc, kc, kc.consts[n_])
                    dv = self.force(self.expr(d, denv, 1))
                    if dv[0] in ("closure", "cls") or (dv[0] == "obj" and dv[1].cls is not None):
                        val = self.force(self.apply(dv, [val], {}, {"@module": kc.module, "@owner": kc}, 1, None))
                    if val[0] != "clsmethod" or (val[1], val[2]) != (kc, name):
                        break       # the decorator returns something else: what that object carries is not followed
                except (NeedAtom, _Raise, Budget, DomainGrew):
                    break
        return table[key]

    LIB_CONST = {("types", "FunctionType"): ("ext", "function", []), ("types", "LambdaType"): ("ext", "function", []), ("types", "MethodType"): ("ext", "method", [])}
    import string as _string
    for _n in ("ascii_letters", "ascii_lowercase", "ascii_uppercase", "digits", "hexdigits", "octdigits", "punctuation", "printable", "whitespace"):
        LIB_CONST[("string", _n)] = ("c", getattr(_string, _n))          # the constants of the string module
    del _n, _string

    def repo_module_attr(self, label, name):
        """value of `name` in a module of this repository referred to by the opaque label 'module <dotted>'; None if unknown"""
        if not label.startswith("module "):
            return None
        mm = self.repo.modules.get(label[len("module "):])
        if mm is None:
            return None
        r = self.repo.resolve_name(mm, name)
        if not r:
            return None
        if r[0] == "class":
            return ("cls", r[1])
        if r[0] == "func":
            return ("closure", r[2], {"@module": r[1], "@owner": None}, None, None)
        if r[0] == "assign":
            h = self.hooks.get("resolve")
            if h is not None:
                hv = h(self, r[1], name, r[2])
                if hv is not None:
                    return hv
            a = const_alts(Evaluator(self.repo, r[1], None).ev(r[2]))
            if a is not None and len(a) == 1:
                return ("c", a[0])
            return None
        if r[0] == "module":
            return ("ext", "module " + (r[1].name if r[1] else name), [])
        return None

    def class_const_value(self, kc, c, ce):
        if isinstance(ce, ast.Call) and isinstance(ce.func, ast.Name) and ce.func.id == "object" and not ce.args and not ce.keywords:
            # `_MISSING = object()` in a class body: one object, identical to nothing but itself
            key = (kc.qname, "@sentinel", id(ce))
            if key not in self.class_attrs:
                self._n_sentinels = getattr(self, "_n_sentinels", 0) + 1
                self.class_attrs[key] = ("ext", "sentinel #%d" % self._n_sentinels, [])
            return self.class_attrs[key]
        a = const_alts(Evaluator(self.repo, kc.module, c, class_scope=kc).ev(ce))
        if a is not None and len(a) == 1:
            if isinstance(a[0], dict) and isinstance(ce, (ast.Dict, ast.Call)) and all(_hashable(k_) for k_ in a[0]):
                # a dict written in the class body is an object that methods may fill (a cache), not a constant
                return ("dict", {k_: ("c", v_) for k_, v_ in a[0].items()})
            return ("c", a[0])
        # tuple of classes (HANDLE tables)
        if isinstance(ce, (ast.Tuple, ast.List)):
            out = []
            for x in ce.elts:
                cc = self.repo.resolve_expr_class(kc.module, x) if isinstance(x, (ast.Name, ast.Attribute)) else None
                if cc is not None:
                    out.append(("cls", cc))
                    continue
                v_ = self.class_const_value(kc, c, x)          # nested tables: (tag, class) pairs, name tuples, ...
                if v_ == ("fn", "const", []) and isinstance(x, ast.Attribute) and not any(isinstance(y_, ast.Call) for y_ in ast.walk(x)):
                    # a named constant of an imported class / module (Stream.EVENT_WRITE): the same value a method body
                    # gets when it writes the same expression
                    try:
                        v_ = self.expr(x, {"@module": kc.module, "@owner": kc}, 1)
                    except (NeedAtom, _Raise):
                        v_ = ("fn", "const", [])
                out.append(v_ if v_ != ("fn", "const", []) else ("fn", unparse(x), []))
            return ("list", out)
        if isinstance(ce, ast.Name) and ce.id in kc.consts:
            return self.class_const_value(kc, c, kc.consts[ce.id])
        if isinstance(ce, ast.Name) and ce.id in kc.methods:
            return ("clsmethod", kc, ce.id)         # a function of the class body used as a value (dispatch tables)
        if isinstance(ce, (ast.Name, ast.Attribute)):
            cc = self.repo.resolve_expr_class(kc.module, ce)
            if cc is not None:
                return ("cls", cc)
        if isinstance(ce, ast.Dict) and all(k is not None for k in ce.keys):
            out = {}
            for k_, v_ in zip(ce.keys, ce.values):
                ka = const_alts(Evaluator(self.repo, kc.module, c, class_scope=kc).ev(k_))
                if ka is None or len(ka) != 1 or not _hashable(ka[0]):
                    kcls = self.repo.resolve_expr_class(kc.module, k_) if isinstance(k_, (ast.Name, ast.Attribute)) else None
                    if kcls is None and isinstance(k_, ast.Attribute) and not any(isinstance(y_, ast.Call) for y_ in ast.walk(k_)):
                        # a named constant of an imported class (Stream.EVENT_WRITE) as a key: the value a method body
                        # gets for the same expression
                        try:
                            kv_ = self.expr(k_, {"@module": kc.module, "@owner": kc}, 1)
                        except (NeedAtom, _Raise):
                            kv_ = None
                        if kv_ is not None and kv_[0] == "fn" and kv_[1].startswith("."):
                            out[("dyn", len(out))] = ("list", [kv_, self.class_const_value(kc, c, v_)])
                            continue
                    if kcls is None:
                        return ("fn", "const", [])
                    out[("dyn", len(out))] = ("list", [("cls", kcls), self.class_const_value(kc, c, v_)])      # a table keyed by classes
                    continue
                out[ka[0]] = self.class_const_value(kc, c, v_)
            return ("dict", out)
        if isinstance(ce, ast.Lambda):
            return ("closure", ce, {"@owner": kc, "@module": kc.module}, kc, None)
        if isinstance(ce, ast.Call) and unparse(ce.func) in ("itertools.count", "count") and not ce.keywords and len(ce.args) <= 2:
            # a process-wide sequence created once in the class body: one shared counter object, advanced by next()
            key = (kc.qname, "@count", id(ce))
            if key not in self.class_attrs:
                av = [const_alts(Evaluator(self.repo, kc.module, c, class_scope=kc).ev(a)) for a in ce.args]
                if all(a is not None and len(a) == 1 and isinstance(a[0], int) for a in av):
                    o = Obj(None)
                    o.fields["@counter"] = av[0][0] if av else 0
                    o.fields["@step"] = av[1][0] if len(av) > 1 else 1
                    self.class_attrs[key] = ("obj", o)
            if key in self.class_attrs:
                return self.class_attrs[key]
        if isinstance(ce, (ast.Call, ast.Dict, ast.DictComp, ast.ListComp, ast.SetComp, ast.BinOp, ast.Subscript, ast.Tuple, ast.List)) \
                and not any(isinstance(x, (ast.Lambda, ast.Yield, ast.Await, ast.NamedExpr)) for x in ast.walk(ce)):
            # a table computed in the class body (dict(... for ... in enumerate("0123456789ABCDEF")), A + B, dict(zip(..))):
            # the expression is interpreted once, other class-level names it mentions resolved the same way; one shared object
            key = (kc.qname, "@body", id(ce))
            if key not in self.class_attrs:
                self.class_attrs[key] = ("fn", "const", [])          # guards against self-reference
                env = {"@module": kc.module, "@owner": None}
                bound = {n_.id for x in ast.walk(ce) if isinstance(x, ast.comprehension) for n_ in ast.walk(x.target) if isinstance(n_, ast.Name)}
                ok = True
                for n_ in {x.id for x in ast.walk(ce) if isinstance(x, ast.Name) and isinstance(x.ctx, ast.Load)} - bound:
                    if n_ in kc.consts and kc.consts[n_] is not ce:
                        v_ = self.class_const_value(kc, c, kc.consts[n_])
                        if v_ == ("fn", "const", []):
                            ok = False
                        env[n_] = v_
                    elif n_ in kc.methods:
                        env[n_] = ("clsmethod", kc, n_)
                if ok:
                    try:
                        v_ = self.expr(ce, env, 1)
                        if (v_[0] in ("list", "dict", "c") and not (v_[0] != "c" and len(v_) > 2 and v_[2])) or v_[0] == "closure":
                            self.class_attrs[key] = v_
                    except (NeedAtom, _Raise, Budget, DomainGrew):
                        pass
            return self.class_attrs[key]
        return ("fn", "const", [])

    # ------------------------------------------------------------------ calls
    def call(self, e, env, depth):
        f = e.func
        # super(X, self).m(...)
        if isinstance(f, ast.Attribute) and isinstance(f.value, ast.Call) and isinstance(f.value.func, ast.Name) and f.value.func.id == "super":
            return self.super_call(e, env, depth)
        args, kwargs = self.eval_args(e, env, depth)
        if isinstance(f, ast.Name):
            h = self.hooks.get("builtin:" + f.id)
            if h is not None:
                hv_ = h(self, e, args, kwargs, env, depth)
                if hv_ is not None:
                    return hv_
            b = self.builtin(f.id, e, args, kwargs, env, depth)
            if b is not None:
                return b
        if isinstance(f, ast.Attribute):
            base = self.force(self.expr(f.value, env, depth), deref=True)
            if base[0] == "ext":
                return self.method_call(base, f.attr, args, kwargs, env, depth, e)
            fv = self.get_attr(base, f.attr, env, depth, f)
        else:
            fv = self.expr(f, env, depth)
        return self.apply(fv, args, kwargs, env, depth, e)

    def _used(self, v):
        """a value that is only looked up when somebody uses it (a field listed by ListFields) is looked up now"""
        if v[0] == "lazy" and getattr(v[1], "on_use", False):
            return self.force(v)
        return v

    def eval_args(self, e, env, depth):
        args = []
        for a in e.args:
            if isinstance(a, ast.Starred):
                v = self.expr(a.value, env, depth)
                items = self.iterate(v)
                args += items if items is not None else [("fn", "star", [v])]
            else:
                args.append(self._used(self.expr(a, env, depth)))
        kwargs = {}
        for k in e.keywords:
            v = self._used(self.expr(k.value, env, depth))
            if k.arg is None:
                if v[0] == "dict":
                    for kk, vv in v[1].items():
                        if isinstance(kk, str):
                            kwargs[kk] = vv
                else:
                    kwargs["**"] = v
            else:
                kwargs[k.arg] = v
        return args, kwargs

    def super_call(self, e, env, depth):
        f = e.func
        owner = env.get("@owner")
        selfname = env.get("@self", "self")
        sv = env.get(selfname)
        after = owner
        if f.value.args:
            a = self.repo.resolve_expr_class(env.get("@module"), f.value.args[0]) if env.get("@module") else None
            if a is not None:
                after = a
        args, kwargs = self.eval_args(e, env, depth)
        cls = sv[1].cls if sv is not None and sv[0] == "obj" else (sv[1] if sv is not None and sv[0] == "cls" else owner)
        if cls is None or after is None:
            return ("unk", "super")
        k, m = self.repo.find_method(cls, f.attr, after=after)
        if m is None:
            return C_NONE     # external base (object / Thread / TestCase)
        if func_is_static(m):
            return self.call_function(m, k, None, args, kwargs, depth=depth + 1)
        return self.call_function(m, k, sv, args, kwargs, depth=depth + 1)

    def builtin(self, name, e, args, kwargs, env, depth):
        if name in env:
            return None
        a0 = args[0] if args else None
        if self.models and args:
            m_ = next((self.model_of(a) for a in args if self.model_of(a) is not None), None)
            if m_ is not None and hasattr(m_, "builtin"):
                v_ = m_.builtin(self, name, args, kwargs)
                if v_ is not None:
                    return v_
        if name == "isinstance" and len(args) == 2:
            v, c = args
            cs = c[1] if c[0] == "list" else [c]
            if v[0] == "obj" and all(x[0] == "cls" for x in cs):
                return ("c", any(x[1] in self.repo.mro(v[1].cls) for x in cs))
            if v[0] == "node":
                return ("c", any(x[0] == "cls" and x[1].name == "ProtocolTreeNode" for x in cs))
            if v[0] in ("ext", "fn") and all(x[0] in ("ext", "cls") or (x[0] == "fn" and not x[2] and "(" not in x[1] and not x[1].startswith(".")) for x in cs) and not v[1].startswith("."):
                # an opaque object known by the name of its class against classes known by name
                vn = v[1].split("(")[0].split(".")[-1]
                if vn[:1].isupper():
                    return ("c", any((x[0] in ("ext", "fn") and x[1].split("(")[0].split(".")[-1] == vn) or (x[0] == "cls" and x[1].name == vn and False) for x in cs))
            vc = self.concrete(v) if v[0] == "atom" else v
            if vc[0] == "c" and all(x[0] == "ext" for x in cs):
                names = [x[1] for x in cs]
                return ("c", type(vc[1]).__name__ in names)
            return ("c", self.free("isinstance(%s)" % unparse(e)))
        if self.sym is not None and a0 is not None and self.sym.is_sym(a0):
            if name == "len":
                ln = self.sym.length(a0)
                if ln is not None:
                    return ln
            if name in ("bytes", "bytearray", "memoryview") and a0[0] == "bufobj" and len(args) == 1:
                return ("bufobj", a0[1].copy())
            if name == "int" and len(args) == 1:
                return self.sym.as_int(a0)
        if name == "issubclass" and len(args) == 2:
            sub, sup = args
            sups = sup[1] if sup[0] == "list" else [sup]
            if sub[0] == "cls" and all(x[0] == "cls" for x in sups):
                return ("c", any(x[1] in self.repo.mro(sub[1]) for x in sups))
            if sub[0] == "cls" and all(x[0] in ("cls", "ext") for x in sups):
                exts = {b.split(".")[-1] for k_ in self.repo.mro(sub[1]) for b in k_.ext_bases}
                return ("c", any((x[0] == "cls" and x[1] in self.repo.mro(sub[1])) or (x[0] == "ext" and x[1].split(".")[-1] in exts) for x in sups))
            if sub[0] == "c":
                raise _Raise(("ext", "TypeError", []), "TypeError: issubclass() arg 1 must be a class")
            if sub[0] == "ext" and not sub[2] and all(x[0] == "cls" for x in sups):
                return ("c", False)           # a builtin / library type is no subclass of a class of this repository
        if name == "len" and a0 is not None:
            if a0[0] == "list" and not (len(a0) > 2 and a0[2]):
                return ("c", len(a0[1]))
            if a0[0] == "dict" and not (len(a0) > 2 and a0[2]):
                return ("c", len(a0[1]))
            if a0[0] == "c":
                try:
                    return ("c", len(a0[1]))
                except Exception:
                    pass
            return ("fn", "len", [a0])
        if name in ("divmod", "pow", "min", "max") and len(args) >= 2 and all(a[0] == "c" and isinstance(a[1], (int, float)) and not isinstance(a[1], bool) for a in args) and not kwargs:
            try:
                import builtins
                return ("c", getattr(builtins, name)(*[x[1] for x in args]))
            except Exception:
                pass
        if name in ("bytes", "bytearray") and a0 is not None and a0[0] == "list" and not (len(a0) > 2 and a0[2]) and len(args) == 1 \
                and all(x[0] == "c" and isinstance(x[1], int) and not isinstance(x[1], bool) and 0 <= x[1] < 256 for x in a0[1]):
            return ("c", bytes(x[1] for x in a0[1]) if name == "bytes" else bytearray(x[1] for x in a0[1]))
        if name in ("str", "bytes", "bytearray", "int", "float", "bool") and a0 is None and not kwargs:
            import builtins
            return ("c", getattr(builtins, name)())         # the empty value of the type (a fresh, empty bytearray)
        if name == "bool" and a0 is not None and len(args) == 1 and a0[0] != "c":
            # bool(x) is the truth of x: the same cell a test of x would ask about
            return ("c", bool(self.truth(a0, unparse(e.args[0]) if e is not None and getattr(e, "args", None) else "bool()")))
        if name in ("str", "int", "float", "bool", "bytes", "bytearray", "repr", "ord", "chr", "abs", "round", "hex", "format", "bin", "oct"):
            if a0 is not None and a0[0] == "c":
                try:
                    import builtins
                    return ("c", getattr(builtins, name)(*[x[1] for x in args]))
                except Exception:
                    pass
            return ("fn", name, list(args))
        if name in ("list", "tuple", "set", "frozenset", "sorted", "reversed"):
            if a0 is None:
                return ("list", [])
            items = self.iterate(a0)
            if items is not None and name == "reversed":
                return ("list", list(reversed(items)))
            if items is not None and name == "sorted":
                if all(x[0] == "c" for x in items) and not kwargs:
                    try:
                        return ("list", [("c", v) for v in sorted(x[1] for x in items)])
                    except TypeError:
                        pass
                if len(items) <= 1:
                    return ("list", items)
                return ("fn", "sorted", list(items))        # an order the interpreter does not know
            if items is not None and name in ("set", "frozenset"):
                seen_, out_ = [], []
                for x in items:
                    if x not in seen_:
                        seen_.append(x)
                        out_.append(x)
                return ("list", out_)
            if items is not None:
                if name == "tuple":
                    if all(x[0] == "c" and _hashable(x[1]) for x in items):
                        return ("c", tuple(x[1] for x in items))      # a tuple of constants is a constant
                    return ("list", items, False, "tuple")
                return ("list", items)
            if a0[0] in ("list", "many"):
                return a0
            return ("list", [self.element_of(a0)], True)
        if name == "dict":
            d = dict(kwargs)
            if a0 is not None and a0[0] == "dict":
                d = dict(a0[1])
                d.update(kwargs)        # keyword arguments win over the positional mapping
            elif a0 is not None:
                # a closed list of (constant key, value) pairs: an ordinary dict
                pairs = self.iterate(a0)
                if pairs is not None:
                    # (a pair whose both halves are constants is a constant tuple: the same pair)
                    pairs = [self.iterate(p) if (p[0] == "list" and not (len(p) > 2 and p[2])) or (p[0] == "c" and isinstance(p[1], (tuple, list))) else None for p in pairs]
                    if all(p is not None and len(p) == 2 for p in pairs):
                        for p in pairs:
                            if p[0][0] == "c" and _hashable(p[0][1]):
                                d[p[0][1]] = p[1]
                            else:
                                # a key that is not a constant (an opaque id): a dynamic entry holding (key, value)
                                dk = _dyn_find(d, p[0])
                                if dk is None:
                                    n_ = len(d)
                                    while ("dyn", n_) in d:
                                        n_ += 1
                                    dk = ("dyn", n_)
                                d[dk] = ("list", [p[0], p[1]])
                        return ("dict", d)
                return ("dict", {("dyn", 0): a0}, True)
            return ("dict", d)
        if name == "type" and len(args) == 1:
            if a0[0] in ("closure", "clsmethod"):
                return ("ext", "function", [])
            if a0[0] == "bound":
                return ("ext", "method", [])
            if a0[0] == "obj":
                return ("cls", a0[1].cls)
            if a0[0] == "list" and len(a0) > 3 and a0[3] == "tuple":
                return ("ext", "tuple", [])
            if a0[0] in ("list", "dict"):
                return ("ext", a0[0], [])
            if a0[0] == "cls":
                return ("ext", "type", [])
            ac = self.concrete(a0) if a0[0] == "atom" else a0
            if ac[0] == "c":
                return ("ext", type(ac[1]).__name__, [])
            if ac[0] == "other":
                return ("ext", "str", [])      # attribute values of a decoded stanza are strings
            return ("fn", "type", [a0])
        if name == "vars" and len(args) == 1 and a0[0] == "obj" and not (self.models and a0[1].id in self.models):
            # the instance dictionary: attribute name -> value (a snapshot)
            return ("dict", {k_: v_ for k_, v_ in a0[1].fields.items() if not k_.startswith("@")})
        if name == "type" and len(args) == 1 and a0[0] in ("closure", "clsmethod"):
            return ("ext", "function", [])
        if name == "type" and len(args) == 1 and a0[0] == "bound":
            return ("ext", "method", [])
        if name == "callable" and len(args) == 1 and a0[0] in ("closure", "clsmethod", "bound", "cls"):
            return C_TRUE
        if name == "setattr" and len(args) == 3 and args[1][0] == "c" and isinstance(args[1][1], str):
            self.set_attr(a0, args[1][1], args[2], env, depth, e)
            return C_NONE
        if name in ("hasattr", "getattr") and len(args) >= 2 and args[1][0] == "c":
            if name == "getattr" and a0[0] == "ext" and isinstance(args[1][1], str):
                return ("bound", a0, args[1][1])      # a method of an opaque object fetched by name: calling it is a method call
            v = self.get_attr(a0, args[1][1], env, depth, e)
            if name == "hasattr":
                return ("c", v[0] != "unset")
            if v[0] == "unset" and len(args) > 2:
                return args[2]
            return v
        if name == "object" and not args and not kwargs:
            # object(): a new object that is identical to nothing but itself (sentinels)
            self._n_sentinels = getattr(self, "_n_sentinels", 0) + 1
            return ("ext", "sentinel #%d" % self._n_sentinels, [])
        if name == "range" and args and all(a[0] == "c" and isinstance(a[1], int) for a in args):
            try:
                r = range(*[a[1] for a in args])
                if len(r) <= 1024:
                    return ("list", [("c", i) for i in r])
            except Exception:
                pass
        if name == "next" and a0 is not None and a0[0] == "gen":
            r_ = a0[1].step()
            if r_[0] == "yield":
                return r_[1]
            if len(args) > 1:
                return args[1]
            raise _Raise(("ext", "StopIteration", []), "StopIteration")
        if name == "iter" and a0 is not None and a0[0] == "gen":
            return a0
        if name == "iter" and len(args) == 2 and a0[0] in ("bound", "closure", "clsmethod"):
            # iter(callable, sentinel): calls until the sentinel comes back (consumed lazily by `for`)
            return ("iter2", a0, args[1])
        if name == "next" and a0 is not None and a0[0] == "list" and not (len(a0) > 2 and a0[2]) and e is not None and e.args and isinstance(e.args[0], ast.GeneratorExp):
            # next(<generator expression>[, default]): the first element it produces
            if a0[1]:
                return a0[1][0]
            if len(args) > 1:
                return args[1]
            raise _Raise(("ext", "StopIteration", []), "StopIteration")
        if name == "next" and a0 is not None and a0[0] == "obj" and "@counter" in a0[1].fields:
            v = a0[1].fields["@counter"]
            a0[1].fields["@counter"] = v + a0[1].fields["@step"]
            return ("c", v)
        if name == "enumerate" and a0 is not None:
            items = self.iterate(a0)
            start = args[1] if len(args) > 1 else kwargs.get("start", ("c", 0))
            if items is not None and start[0] == "c" and isinstance(start[1], int):
                return ("list", [("list", [("c", start[1] + i), x]) for i, x in enumerate(items)])
        if name == "zip" and args:
            cols = [self.iterate(a) for a in args]
            if all(c is not None for c in cols):
                return ("list", [("list", list(t)) for t in zip(*cols)])
        if name in ("any", "all") and a0 is not None:
            items = self.iterate(a0)
            if items is not None and all(x[0] == "c" for x in items):
                return ("c", (any if name == "any" else all)(bool(x[1]) for x in items))
        if name == "map" and len(args) == 2 and args[0][0] in ("closure", "bound", "clsmethod", "cls"):
            items = self.iterate(args[1])
            if items is not None and len(items) <= 4096:
                return ("list", [self.apply(args[0], [x], {}, env, depth + 1, e) for x in items])
        if name == "map" and len(args) == 2 and args[0][0] == "ext" and not args[0][2] and args[0][1] in ("chr", "ord", "str", "int", "len", "bool", "float", "abs", "hex", "bytes", "repr"):
            items = self.iterate(self.force(args[1]))
            if items is not None and len(items) <= 1 << 20 and all(x[0] == "c" for x in items):
                # a pure builtin mapped over constants: computed
                import builtins as _b
                try:
                    return ("list", [("c", getattr(_b, args[0][1])(x[1])) for x in items])
                except (ValueError, TypeError, OverflowError) as x_:
                    raise _Raise(("ext", type(x_).__name__, []), "%s: %s" % (type(x_).__name__, x_))
        if name in ("range", "enumerate", "zip", "map", "filter", "iter", "min", "max", "sum", "any", "all"):
            return ("fn", name, list(args))
        if name == "print":
            return C_NONE
        return None

    def apply(self, fv, args, kwargs, env, depth, e):
        k = fv[0]
        if k == "closure":
            fn, cenv, owner, sv = fv[1], fv[2], fv[3], fv[4]
            env0 = {x: y for x, y in cenv.items()}
            return self.call_function(fn, owner, sv, args, kwargs, env0=env0, depth=depth + 1, defaults_mod=cenv.get("@module"))
        if k == "bound":
            recv, name = fv[1], fv[2]
            return self.method_call(recv, name, args, kwargs, env, depth, e)
        if k == "clsmethod":
            c, name = fv[1], fv[2]
            h = self.hooks.get("classmethod:" + name)
            if h is not None:
                r = h(self, c, args, kwargs, env, depth, e)
                if r is not None:
                    return r
            kk, m = self.repo.find_method(c, name)
            if func_is_static(m):
                return self.call_function(m, kk, None, args, kwargs, depth=depth + 1)
            if func_is_classmethod(m):
                return self.call_function(m, kk, ("cls", c), args, kwargs, depth=depth + 1)
            # unbound call Cls.m(self, ...)
            if args:
                return self.call_function(m, kk, args[0], args[1:], kwargs, depth=depth + 1)
            return ("unk", "unbound")
        if k == "cls":
            return self.construct(fv[1], args, kwargs, env, depth, e)
        if k == "obj" and fv[1].id in self.models:
            return self.models[fv[1].id].apply(self, fv, args, kwargs, env, depth)
        if k == "obj" and fv[1].cls is not None:
            kk_, m_ = self.repo.find_method(fv[1].cls, "__call__")
            if m_ is not None:
                return self.call_function(m_, kk_, fv, args, kwargs, depth=depth + 1)
        if k == "fn" and fv[1].startswith(".") and len(fv[2]) == 1 and ((fv[2][0][0] == "ext" and not fv[2][0][1].startswith("module ")) or (fv[2][0][0] == "fn" and not fv[2][0][1].startswith("."))):
            # an attribute of an opaque object fetched first and called later (`f = self.manager.decrypt_msg; f(...)`):
            # the same as calling the method
            return self.method_call(fv[2][0], fv[1][1:], args, kwargs, env, depth, e)
        if k in ("ext", "fn"):
            label = fv[1]
            if label.split(".")[-1] == "reduce" and len(args) >= 2 and args[0][0] in ("closure", "bound", "clsmethod"):
                # functools.reduce(f, iterable[, initial]): the fold is executed
                items = self.iterate(self.force(args[1]))
                if items is not None and (len(args) > 2 or items):
                    acc = args[2] if len(args) > 2 else items[0]
                    for x in (items if len(args) > 2 else items[1:]):
                        acc = self.apply(args[0], [acc, x], {}, env, depth + 1, e)
                    return acc
            h = self.hooks.get("extcall")
            if h is not None:
                # a rule observes calls of external callables (constructors of library classes) with their keywords
                r = h(self, label, args, kwargs, env, depth, e)
                if r is not None:
                    return r
            deps = list(args) + list(kwargs.values()) + (list(fv[2]) if k == "fn" else [])
            return ("ext", label + "()", deps)
        return ("fn", "call", [fv] + list(args))

    def construct(self, c, args, kwargs, env, depth, e):
        h = self.hooks.get("construct")
        if h is not None:
            r = h(self, c, args, kwargs, env, depth, e)
            if r is not None:
                return r
        if c.name == "ProtocolTreeNode" and c.module.name.endswith("protocoltreenode"):
            return self.new_node(args, kwargs)
        o = Obj(c)
        ov = ("obj", o)
        k, init = self.repo.find_method(c, "__init__")
        if init is not None:
            try:
                self.call_function(init, k, ov, args, kwargs, depth=depth + 1)
            except _Return:
                pass
        else:
            o.fields["@args"] = ("list", list(args) + list(kwargs.values()))
        if any(x for k_ in self.repo.mro(c) for x in k_.ext_bases if x != "object"):
            o.fields.setdefault("@ext", ("list", list(args) + list(kwargs.values())))
        return ov

    @staticmethod
    def _attrs_of_node(v):
        """the stanza whose attribute dictionary (`node.attributes`) the value is, else None"""
        if v[0] == "fn" and v[1] == "attributes" and len(v[2]) == 1 and v[2][0][0] == "node":
            return v[2][0][1]
        return None

    def method_call(self, recv, name, args, kwargs, env, depth, e):
        recv = self.force(recv, deref=True)
        k = recv[0]
        if k == "fn" and name in ("get", "__getitem__", "__contains__") and args and self._attrs_of_node(recv) is not None:
            # the attribute dictionary of a symbolic stanza read directly: the same cells as node[key]
            n_ = self._attrs_of_node(recv)
            v_ = self.node_attr(n_, args[0])
            if name == "__contains__":
                return ("c", self.concrete(v_) != C_NONE) if v_[0] in ("atom", "c") else ("fn", "contains", [recv, args[0]])
            if name == "get" and len(args) > 1:
                vc_ = self.concrete(v_) if v_[0] == "atom" else v_
                return args[1] if vc_ == C_NONE else vc_
            return v_
        if k in ("list", "dict", "c") and name in ("__getitem__", "__contains__", "__len__") and not (k == "c" and not isinstance(recv[1], (str, bytes, bytearray, tuple, list, dict))):
            # the operator forms called by name (`table.__getitem__` handed to map)
            if name == "__getitem__" and len(args) == 1:
                return self.getitem(recv, args[0], env, depth, e)
            if name == "__contains__" and len(args) == 1:
                return ("c", bool(self.contains(recv, args[0], "contains")))
            if name == "__len__" and not args:
                r_ = self.builtin("len", e, [recv], {}, env, depth)
                if r_ is not None:
                    return r_
        if self.on_write is not None and name in MUTATORS and (k in ("list", "dict") or (k == "c" and isinstance(recv[1], (bytearray, list, dict, set)))):
            self.on_write("call", recv, name, e, list(args))
        if self.sym is not None and k == "bufobj":
            return self.sym.method(self, recv, name, args, kwargs)
        if self.sym is not None and k == "lin" and name == "to_bytes":
            return ("fn", "to_bytes", [recv] + list(args))
        if k == "node":
            return self.node_method(recv, name, args, kwargs, env, depth, e)
        if k == "obj" and recv[1].id in self.models:
            return self.models[recv[1].id].call(self, recv, name, args, kwargs, env, depth)
        if k == "obj":
            o = recv[1]
            h = self.hooks.get("method:" + name)
            if h is not None:
                r = h(self, recv, args, kwargs, env, depth, e)
                if r is not None:
                    return r
            kk, m = self.repo.find_method(o.cls, name) if o.cls is not None else (None, None)
            if m is None and o.cls is not None and name not in o.fields:
                # a method made in the class body (`encrypt_image = _for_kind("encrypt", INFO_IMAGE)`, `alias = other`):
                # a function stored in the class is bound to the instance like any method
                kc_, ce_ = self.repo.class_const(o.cls, name)
                if ce_ is not None and isinstance(ce_, (ast.Call, ast.Name, ast.Lambda)):
                    v_ = self.class_const_value(kc_, o.cls, ce_)
                    if v_[0] == "closure":
                        return self.apply(v_, [recv] + list(args), kwargs, env, depth, e)
                    if v_[0] == "clsmethod":
                        kk2, m2 = self.repo.find_method(v_[1], v_[2])
                        if m2 is not None and not func_is_static(m2) and not func_is_classmethod(m2):
                            return self.call_function(m2, kk2, recv, args, kwargs, depth=depth + 1)
            if m is None:
                return ("fn", "%s.%s" % (o.cls.name if o.cls else "?", name), [recv] + list(args))
            if func_is_static(m):
                return self.call_function(m, kk, None, args, kwargs, depth=depth + 1)
            if func_is_classmethod(m):
                return self.call_function(m, kk, ("cls", o.cls), args, kwargs, depth=depth + 1)
            r = self.call_function(m, kk, recv, args, kwargs, depth=depth + 1)
            if r[0] == "node" and not r[1].symbolic:
                r[1].made_by = (o, name)
            return r
        if k == "dict":
            d = recv[1]
            opened = len(recv) > 2 and recv[2]
            if name == "items":
                return ("items", d, opened or any(isinstance(x, tuple) and x and x[0] == "dyn" for x in d))
            if name == "keys":
                ks = []
                dyn = False
                for x, vv in d.items():
                    if isinstance(x, tuple) and x and x[0] == "dyn":
                        dyn = True
                        if vv[0] == "list" and len(vv[1]) == 2:
                            ks.append(vv[1][0])
                    else:
                        ks.append(("c", x))
                return ("list", ks, True) if (opened or dyn) else ("list", ks)
            if name == "values":
                return ("list", list(d.values()), True) if opened else ("list", list(d.values()))
            if name in ("get", "setdefault", "pop") and args:
                st, dk = self.dict_lookup(d, opened, args[0])
                dflt = args[1] if len(args) > 1 else C_NONE
                if st == "found":
                    v_ = d[dk][1][1] if isinstance(dk, tuple) and dk and dk[0] == "dyn" else d[dk]
                    if name == "pop":
                        del d[dk]
                    return v_
                if st == "absent":
                    if name == "pop" and len(args) < 2:
                        raise _Raise(("ext", "KeyError", []), "KeyError: %s" % show(args[0])[:40])
                    if name == "setdefault":
                        kc = self.concrete(args[0]) if args[0][0] == "atom" else args[0]
                        if kc[0] == "c" and _hashable(kc[1]):
                            d[kc[1]] = dflt
                        else:
                            n_ = len(d)
                            while ("dyn", n_) in d:
                                n_ += 1
                            d[("dyn", n_)] = ("list", [args[0], dflt])
                    return dflt
                if name == "get" and opened:
                    return ("fn", "get", [recv] + list(args))
                return ("fn", "dict." + name, [recv] + list(args))
            if name == "update" and args and args[0][0] == "dict":
                d.update(args[0][1])
                d.update({k_: v_ for k_, v_ in kwargs.items()})
                return C_NONE
            if name == "update" and not args and kwargs:
                d.update({k_: v_ for k_, v_ in kwargs.items()})
                return C_NONE
            if name == "update" and args:
                # an iterable of (key, value) pairs
                pairs_ = self.iterate(self.force(args[0]))
                if pairs_ is not None:
                    ok_ = []
                    for p_ in pairs_:
                        p_ = self.force(p_)
                        kv_ = self.iterate(p_) if p_[0] in ("list", "c") else None
                        if kv_ is None or len(kv_) != 2:
                            ok_ = None
                            break
                        kc_ = self.concrete(kv_[0]) if kv_[0][0] == "atom" else kv_[0]
                        if kc_[0] != "c" or not _hashable(kc_[1]):
                            ok_ = None
                            break
                        ok_.append((kc_[1], kv_[1]))
                    if ok_ is not None:
                        for k_, v_ in ok_:
                            d[k_] = v_
                        d.update({k_: v_ for k_, v_ in kwargs.items()})
                        return C_NONE
            if name == "copy":
                return ("dict", dict(d))
            return ("fn", "dict." + name, [recv] + list(args))
        if k == "list":
            l = recv[1]
            if name == "append" and args:
                if len(self._eff_stack) > 1 and len(recv) == 2:
                    # appended inside a symbolic loop: the list becomes open
                    l.append(args[0])
                    return C_NONE
                l.append(args[0])
                return C_NONE
            if name == "extend" and args:
                items = self.iterate(args[0])
                l.extend(items if items is not None else [self.element_of(args[0])])
                return C_NONE
            if name == "add" and len(args) == 1:
                # a set (modelled as the list of its members): a member that is there already is not added again
                if not any(x is args[0] or x == args[0] for x in l):
                    l.append(args[0])
                return C_NONE
            if name == "discard" and len(args) == 1:
                for i_, x in enumerate(l):
                    if x is args[0] or x == args[0]:
                        del l[i_]
                        break
                return C_NONE
            if name == "update" and args:
                for a_ in args:
                    for x in (self.iterate(self.force(a_)) or [self.element_of(a_)]):
                        if not any(y is x or y == x for y in l):
                            l.append(x)
                return C_NONE
            if name == "index":
                a0_ = self.concrete(args[0]) if args and args[0][0] == "atom" else (args[0] if args else None)
                if a0_ is not None and len(args) == 1 and not (len(recv) > 2 and recv[2]) and a0_[0] == "c" and all(x[0] == "c" for x in l):
                    for i_, x in enumerate(l):
                        if x[1] == a0_[1] and type(x[1]) is type(a0_[1]):
                            return ("c", i_)
                    raise _Raise(("ext", "ValueError", []), "ValueError: %r is not in list" % (a0_[1],))
                return ("fn", "index", [recv] + list(args))
            if name == "pop":
                if l and not args:
                    return l.pop()
                if l and len(args) == 1 and args[0][0] == "c" and isinstance(args[0][1], int) and -len(l) <= args[0][1] < len(l) and len(recv) == 2:
                    return l.pop(args[0][1])
                return ("fn", "pop", [recv])
            if name == "copy":
                return ("list", list(l))
            closed = not (len(recv) > 2 and recv[2])
            if name == "remove" and args and closed:
                for i_, x in enumerate(l):
                    if x == args[0]:
                        del l[i_]
                        return C_NONE
                if all(x[0] == "c" for x in l) and args[0][0] == "c":
                    raise _Raise(("ext", "ValueError", []), "ValueError: list.remove(x): x not in list")
            if name == "insert" and len(args) == 2 and closed and args[0][0] == "c" and isinstance(args[0][1], int):
                l.insert(args[0][1], args[1])
                return C_NONE
            if name == "reverse" and closed:
                l.reverse()
                return C_NONE
            if name == "sort" and closed and all(x[0] == "c" for x in l) and not kwargs:
                try:
                    l.sort(key=lambda x: x[1])
                    return C_NONE
                except TypeError:
                    pass
            if name == "clear":
                del l[:]
                return C_NONE
            if name == "count" and closed and args and all(x[0] == "c" for x in l) and args[0][0] == "c":
                return ("c", sum(1 for x in l if x == args[0]))
            if name in ("remove", "insert", "reverse", "sort"):
                self.notes.append("a list is changed by .%s() in a way the interpreter does not follow" % name)
            return ("fn", "list." + name, [recv] + list(args))
        if k == "atom":
            rv = self.concrete(recv)
            if rv[0] == "c" and rv[1] is None:
                raise _Raise(("ext", "AttributeError", []), "AttributeError: 'NoneType' object has no attribute %r" % name)
        if k == "c" and recv[1] is None:
            raise _Raise(("ext", "AttributeError", []), "AttributeError: 'NoneType' object has no attribute %r" % name)
        if k in ("c", "atom"):
            rc = recv
            def _py(a):
                """python value of a closed abstract list / dict of constants (so that str.join / str.translate can run)"""
                if a[0] == "c":
                    return a
                if a[0] == "list" and not (len(a) > 2 and a[2]) and all(x[0] == "c" for x in a[1]):
                    return ("c", [x[1] for x in a[1]])
                if a[0] == "dict" and not (len(a) > 2 and a[2]) and all(not (isinstance(k_, tuple) and k_ and k_[0] == "dyn") and v_[0] == "c" for k_, v_ in a[1].items()):
                    return ("c", {k_: v_[1] for k_, v_ in a[1].items()})
                return a
            if k == "c" and name == "join" and args and self.models:
                items_ = self.iterate(args[0])
                if items_ is not None:
                    m_ = next((self.model_of(x) for x in items_ if self.model_of(x) is not None), None)
                    if m_ is not None and hasattr(m_, "join"):
                        v_ = m_.join(self, recv, items_)
                        if v_ is not None:
                            return v_
            if k == "c" and name in ("join", "translate", "format", "startswith", "endswith"):
                args = [_py(a) for a in args]
            if k == "c" and isinstance(rc[1], (str, bytes)) and not hasattr(rc[1], name) and not name.startswith("_"):
                # Python 3: str has no decode, bytes no encode / format - the call raises before anything else happens
                raise _Raise(("ext", "AttributeError", []), "AttributeError: '%s' object has no attribute '%s'" % (type(rc[1]).__name__, name))
            if k == "c" and all(a[0] == "c" for a in args) and not kwargs:
                try:
                    r = getattr(rc[1], name)(*[a[1] for a in args])
                    if isinstance(r, (str, bytes, int, bool, float, type(None), tuple, list)):
                        return ("c", r)
                except (ValueError, IndexError, KeyError, UnicodeError, OverflowError, ZeroDivisionError) as x_:
                    if isinstance(rc[1], (str, bytes, bytearray, tuple)) and hasattr(rc[1], name):
                        # a method of a constant with constant arguments raises exactly what Python raises ('abc'.index('@'))
                        raise _Raise(("ext", type(x_).__name__, []), "%s: %s" % (type(x_).__name__, x_))
                except Exception:
                    pass
            if name == "join" and args:
                items = self.iterate(args[0])
                return ("fn", "join", [recv] + (items if items is not None else [args[0]]))
            return ("fn", name, [recv] + list(args))
        if k == "ext" and recv[1].startswith("module "):
            rv = self.repo_module_attr(recv[1], name)
            if rv is not None:
                return self.apply(rv, args, kwargs, env, depth, e)
        if k == "ext" and recv[1].split(" ")[-1] == "struct" and name in ("pack", "unpack", "unpack_from", "calcsize") and args and not kwargs \
                and all(a[0] == "c" for a in args) and (("ext:*." + name) not in self.hooks or getattr(self.hooks["ext:*." + name], "soft", False)):
            # the struct module on constants: computed (a pure function of its arguments)
            import struct as _struct
            try:
                r_ = getattr(_struct, name)(*[bytes(a[1]) if isinstance(a[1], bytearray) else a[1] for a in args])
            except Exception as x_:
                raise _Raise(("ext", "struct.error" if isinstance(x_, _struct.error) else type(x_).__name__, []), "%s: %s" % (type(x_).__name__, x_))
            if isinstance(r_, tuple):
                return ("list", [("c", y) for y in r_], False, "tuple")
            return ("c", r_)
        if k == "ext" and recv[1].split(" ")[-1] == "binascii" and name in ("hexlify", "unhexlify", "b2a_hex", "a2b_hex", "crc32") and args and not kwargs \
                and all(a[0] == "c" for a in args) and ("ext:*." + name) not in self.hooks:
            # binascii on constants: computed (pure functions of their arguments)
            import binascii as _binascii
            try:
                return ("c", getattr(_binascii, name)(*[a[1] for a in args]))
            except Exception as x_:
                raise _Raise(("ext", type(x_).__name__, []), "%s: %s" % (type(x_).__name__, x_))
        if k == "ext" and recv[1].split(" ")[-1].split(".")[-1] == "inspect" and name == "getmembers" and args:
            # inspect.getmembers(obj, inspect.ismethod) of an object of this repository: (name, bound method) for every
            # method the class and its bases define, sorted by name
            ov_ = self.force(args[0])
            pred_ = args[1] if len(args) > 1 else kwargs.get("predicate")
            pname_ = pred_[1].lstrip(".") if pred_ is not None and pred_[0] == "fn" else None
            if ov_[0] == "obj" and ov_[1].cls is not None and ov_[1].id not in self.models and pname_ in ("ismethod", "isroutine"):
                names_ = {}
                for kx in reversed(self.repo.mro(ov_[1].cls)):
                    for n_, f_ in kx.methods.items():
                        names_[n_] = f_
                return ("list", [("list", [("c", n_), ("bound", ov_, n_)]) for n_ in sorted(names_) if not (func_is_static(names_[n_]) and pname_ == "ismethod")])
        if k == "ext" and recv[1] == "dict" and name == "fromkeys" and args:
            items_ = self.iterate(self.force(args[0]))
            if items_ is not None and all(x[0] == "c" and _hashable(x[1]) for x in items_):
                return ("dict", {x[1]: (args[1] if len(args) > 1 else C_NONE) for x in items_})
        if k == "ext":
            # an unknown method called on an opaque external object: the object now carries what was put into it,
            # and the call is recorded (dispatcher / protocol / manager calls are effects some rules look at)
            was_plain = not recv[2]
            recv[2].extend(list(args) + list(kwargs.values()))
            self.emit("CALL", recv[1] + "." + name, list(args), recv)
            h = self.hooks.get("ext:" + recv[1] + "." + name) or self.hooks.get("ext:*." + name)
            if h is not None:
                # the environment's reaction to this call (e.g. a dispatcher calling back synchronously)
                r = h(self, recv, args, kwargs, env, depth, e)
                if r is not None:
                    return r
            if name == "acquire" and recv[1].split(".")[-1] in ("Lock()", "RLock()", "Semaphore()", "BoundedSemaphore()", "Condition()"):
                nonblocking = (args and args[0] == ("c", False)) or kwargs.get("blocking") == ("c", False) or len(args) > 1 or "timeout" in kwargs
                if not nonblocking:
                    return C_TRUE
                # a try-lock may fail: both outcomes are path classes
                ok_ = self.free("trylock(%s)" % (unparse(e) if e is not None else recv[1]))
                if not ok_:
                    # the failed attempt did not take the lock: undo the CALL record's effect on the balance
                    self.emit("CALL", recv[1] + ".release", [], recv)
                return ("c", bool(ok_))
            if not recv[1].endswith(")") and (was_plain or recv[1].startswith("module ") or "." not in recv[1] and recv[1].islower()) and name[:1].isupper() and not name.isupper() and name not in ("Empty", "Full"):
                # a class of a library module is instantiated (threading.Lock(), Queue.Queue()): a fresh opaque object
                # whose method calls are recorded
                return ("ext", name + "()", list(args) + list(kwargs.values()))
        if k == "fn" and not recv[1].startswith("."):
            # a method of the opaque result of a library call (zlib.decompressobj().decompress(...)): recorded like the
            # calls on opaque objects, the receiver being that result
            self.emit("CALL", recv[1].rstrip("()") + "()." + name, list(args), recv)
        h = self.hooks.get("anymethod:" + name)
        if h is not None:
            # a method of a value the interpreter knows nothing about (the result of a library call): rules may observe it
            r = h(self, recv, args, kwargs, env, depth, e)
            if r is not None:
                return r
        return ("fn", name, [recv] + list(args) + list(kwargs.values()))


def _closed_key(k):
    """a dictionary key whose equality with another such key is decided by looking at it: constants, object identities,
    tuples of those"""
    if not isinstance(k, tuple) or not k:
        return False
    if k[0] == "c":
        return True
    if k[0] in ("obj", "cls", "node"):
        return True
    if k[0] == "list" and not (len(k) > 2 and k[2]):
        return all(_closed_key(x) for x in k[1])
    return False


def _dyn_find(d, k):
    """key of the dynamic entry of abstract dict `d` that was stored under the very same abstract key value `k`
    (an input atom, a tuple of atoms, an opaque value): the same symbolic key names the same entry"""
    if k is None or k[0] == "c":
        return None
    for dk, dv in d.items():
        if isinstance(dk, tuple) and dk and dk[0] == "dyn" and dv[0] == "list" and len(dv[1]) == 2 and dv[1][0] == k:
            return dk
    return None


def _load(t):
    import copy
    t2 = copy.deepcopy(t)
    for n in ast.walk(t2):
        if hasattr(n, "ctx"):
            n.ctx = ast.Load()
    return t2


def _hashable(x):
    try:
        hash(x)
        return True
    except TypeError:
        return False


def show(v, depth=0):
    if not isinstance(v, tuple) or not v:
        return repr(v)
    if depth > 4:
        return "..."
    k = v[0]
    if k == "c":
        return repr(v[1])
    if k == "atom":
        a = v[1]
        if a[0] == "A":
            return "%s[%s]" % ("/".join(a[1]) or "node", a[2])
        return repr(a)
    if k == "node":
        return repr(v[1])
    if k == "obj":
        return repr(v[1])
    if k == "cls":
        return v[1].name
    if k == "list":
        return "[" + ", ".join(show(x, depth + 1) for x in v[1][:6]) + ("..." if len(v) > 2 and v[2] else "") + "]"
    if k == "dict":
        return "{" + ", ".join("%s: %s" % (kk, show(x, depth + 1)) for kk, x in list(v[1].items())[:6]) + "}"
    if k in ("fn", "ext"):
        return "%s(%s)" % (v[1], ", ".join(show(x, depth + 1) for x in v[2][:4]))
    if k == "closure":
        return "<closure %s>" % getattr(v[1], "name", "lambda")
    return "%s:%s" % (k, v[1] if len(v) > 1 else "")


def clone_value(v, memo):
    """copy of an abstract value graph (objects, nodes, containers, bound methods, closures); AST nodes and
    class references are shared.  Used to re-use an expensively constructed object (a layer group) per run."""
    if not isinstance(v, tuple) or not v:
        return v
    k = v[0]
    if k == "obj":
        o = v[1]
        if id(o) in memo:
            return ("obj", memo[id(o)])
        c = Obj(o.cls)
        memo[id(o)] = c
        for f, x in o.fields.items():
            c.fields[f] = clone_value(x, memo)
        return ("obj", c)
    if k == "node":
        n = v[1]
        if id(n) in memo:
            return ("node", memo[id(n)])
        c = Node(n.tag, n.path)
        memo[id(n)] = c
        c.attrs = {a: clone_value(x, memo) for a, x in n.attrs.items()}
        c.removed = set(n.removed)
        c.children = [(kind, clone_value(("node", ch), memo)[1] if isinstance(ch, Node) else clone_value(ch, memo)) for kind, ch in n.children]
        c.data = clone_value(n.data, memo)
        c.attrs_open = [tuple(clone_value(x, memo) if isinstance(x, tuple) else x for x in e) for e in n.attrs_open]
        return ("node", c)
    if k == "list":
        return ("list", [clone_value(x, memo) for x in v[1]]) + tuple(v[2:])
    if k == "dict":
        return ("dict", {a: clone_value(x, memo) for a, x in v[1].items()}) + tuple(v[2:])
    if k == "bound":
        return ("bound", clone_value(v[1], memo), v[2])
    if k == "closure":
        env = v[2]
        if id(env) in memo:
            env2 = memo[id(env)]
        else:
            env2 = {}
            memo[id(env)] = env2
            for a, x in env.items():
                env2[a] = clone_value(x, memo) if isinstance(x, tuple) else x
        return ("closure", v[1], env2, v[3], clone_value(v[4], memo) if v[4] is not None else None)
    if k in ("fn", "ext"):
        return (k, v[1], [clone_value(x, memo) for x in v[2]])
    return v


# ----------------------------------------------------------------------------- driver
def enumerate_cells(run, domains=None, max_cells=20000, max_rounds=80):
    """run(cell, domains) -> result (raises NeedAtom / DomainGrew).  Returns [(cell, result)].
    The cells partition the input space: every NeedAtom splits the cell over the atom's whole domain."""
    domains = domains if domains is not None else {}
    for _ in range(max_rounds):
        results = []
        pending = [dict()]
        grew = False
        n = 0
        while pending:
            cell = pending.pop()
            n += 1
            if n > max_cells:
                raise Budget()
            try:
                if Gen._live:
                    Gen.close_abandoned()
                res, interp = run(cell, domains)
            except NeedAtom as na:
                a = na.atom
                if a[0] in ("A", "E"):
                    dom = list(domains.get(a, [])) + [None, OTHER]
                else:
                    dom = [True, False]
                for v in dom:
                    c2 = dict(cell)
                    c2[a] = v
                    pending.append(c2)
                continue
            except DomainGrew:
                grew = True
                break
            results.append((cell, res))
        if not grew:
            return results
    raise Budget()


def count_effects(effects, pred):
    """(min, max) number of effects satisfying pred; effects inside LOOP count as [0, inf)"""
    lo = hi = 0
    for e in effects:
        if e[0] == "LOOP":
            l, h = count_effects(e[1], pred)
            if h:
                hi = float("inf")
        elif pred(e):
            lo += 1
            hi += 1
    return lo, hi


def flat_effects(effects):
    for e in effects:
        if e[0] == "LOOP":
            for x in flat_effects(e[1]):
                yield x
        else:
            yield e
